#!/bin/sh
# Offline setup: nothing is downloaded or built; verify the interpreter and the imports the
# checks need, and create the output directories.
cd "$(dirname "$0")" || exit 2
PY=${VERIF_PYTHON:-/venv/bin/python}
mkdir -p evidence replays
PYTHONPATH="$(pwd):${VERIF_REPO_SRC:-/repo/src}" "$PY" - <<'P' || exit 1
import sys
import marko, regex, strif, pathspec  # third-party deps of flowmark, already installed in /venv
import flowmark, os
src = os.path.realpath(os.environ.get("VERIF_REPO_SRC", "/repo/src"))
assert os.path.realpath(flowmark.__file__).startswith(src), (flowmark.__file__, src)
import dst.core, dst.sched, dst.corpus
print("setup ok: python", sys.version.split()[0], "flowmark from", os.path.dirname(flowmark.__file__))
P
