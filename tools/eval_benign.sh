#!/bin/sh
# Run the quick check of the matching property against every negative control (benign/*.diff).
# Expected: no VIOLATION / HARNESS-ERROR line (except the documented true positive c14_p1).
cd "$(dirname "$0")/.." || exit 2
for f in benign/c*_p*.diff; do
  b=$(basename "$f" .diff); c=$(echo "$b" | cut -c1-3 | tr c C)
  checks=$c; [ "$c" = "C14" ] && checks="C14 C15"
  echo "== $b"
  VERIF_MAX_MINIMISE=0 tools/try_patch.sh "$f" $checks 2>&1 | grep -v "^exit" | cut -c1-220 | head -6
done
