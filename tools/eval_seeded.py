"""Run the quick check of the property each seeded change breaks against a scratch copy with the
change applied; record what was detected in seeded/<id>/meta.json (field 'evaluation')."""
import json, os, shutil, subprocess, sys, tempfile, time
V = os.path.dirname(os.path.dirname(os.path.abspath(__file__)))
only = sys.argv[1:]
for sid in sorted(os.listdir(os.path.join(V, "seeded"))):
    if only and sid not in only: continue
    d = os.path.join(V, "seeded", sid)
    prop = sid.split("-")[0].upper()
    s = tempfile.mkdtemp(prefix="evalseed.")
    try:
        shutil.copytree("/repo/src", s + "/src"); os.makedirs(s + "/tests"); shutil.copytree("/repo/tests/testdocs", s + "/tests/testdocs")
        if subprocess.run(["patch", "-p1", "-s", "-i", os.path.join(d, "patch.diff")], cwd=s).returncode != 0:
            print(sid, "PATCH DOES NOT APPLY to the current /repo/src - rebase it")
            continue
        t0 = time.time()
        env = dict(os.environ, VERIF_REPO_SRC=s + "/src", VERIF_MAX_MINIMISE="1", VERIF_EVIDENCE_DIR=s + "/evidence", VERIF_REPLAY_DIR=s + "/replays")
        r = subprocess.run(["./run_check.sh", prop, "quick"], cwd=V, env=env, capture_output=True, text=True)
        ev = json.load(open(os.path.join(s, "evidence", prop + ".json")))
        lines = [l for l in r.stdout.splitlines() if l.startswith(("VIOLATION", "KNOWN", "HARNESS", "["))]
        res = {"check": f"./run_check.sh {prop} quick (VERIF_REPO_SRC = scratch copy of /repo/src with patch.diff applied)", "exit": r.returncode, "detected": r.returncode == 1,
               "fingerprints": ev["coverage"].get("new_violation_fingerprints"), "violating_runs_by_fingerprint": ev["coverage"].get("violating_runs_by_fingerprint"), "runs": ev["coverage"].get("run_index_range", [0, -1])[1] + 1, "verif_seed": ev["seed"], "wall_s": round(time.time() - t0, 1), "output": lines[:6]}
    finally:
        shutil.rmtree(s, ignore_errors=True)
    mp = os.path.join(d, "meta.json")
    meta = json.load(open(mp)) if os.path.exists(mp) else {}
    meta["evaluation"] = res
    json.dump(meta, open(mp, "w"), indent=1)
    print(sid, res["detected"], res["violating_runs_by_fingerprint"], "of", res["runs"], "runs", res["wall_s"])
