#!/bin/sh
# usage: tools/soak.sh <first_seed> <last_seed> [tier]  - runs every check for each seed, prints one line per run
A=$1; B=$2; T=${3:-quick}
cd "$(dirname "$0")/.." || exit 2
s=$A
while [ "$s" -le "$B" ]; do
  for c in C13 C14 C15 C17; do
    out=$(VERIF_SEED=$s ./run_check.sh $c $T 2>&1 | grep -v conda)
    rc=$?
    echo "seed=$s $c $(echo "$out" | tr '\n' '|' | cut -c1-400)"
    echo "$out" | grep -q -E "VIOLATION|HARNESS" && echo "$out" | cut -c1-2000
  done
  s=$((s+1))
done
