"""Debug helper: run one run index of a check in-process and print case + result.  usage: show.py C17 <index> [tier]"""
import json, os, sys
sys.path.insert(0, os.path.dirname(os.path.dirname(os.path.abspath(__file__))))
from dst import core
src = core.repo_src(); sys.path.insert(0, src)
import importlib
check, idx = sys.argv[1], int(sys.argv[2]); tier = sys.argv[3] if len(sys.argv) > 3 else "quick"
mod = importlib.import_module(f"dst.check_{check.lower()}")
env = mod.Env(); env.setup()
from dst.worker import run_forked
env.run = lambda case, t=False: run_forked(mod, env, case, 300, t)
rs = core.derive_seed(core.verif_seed(), check, tier, idx)
case = mod.gen_case(rs, tier, index=idx) if getattr(mod, "GEN_TAKES_INDEX", False) else mod.gen_case(rs, tier)
if hasattr(mod, "prepare"): mod.prepare(env, [case])
res = env.run(case, True)
print(json.dumps({"case": case, "result": res}, indent=1, default=core._default))
