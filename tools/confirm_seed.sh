#!/bin/sh
# usage: tools/confirm_seed.sh <worktree>  - confirm patch == diff, suite passes, demo fails with / passes without
W=$1; cd "$W" || exit 2
git diff -- src | diff -q - _seed/patch.diff >/dev/null && pd=same || pd=DIFF
t=$(PYTHONPATH=$W/src timeout 900 /venv/bin/python -m pytest -q -p no:cacheprovider --timeout=900 -x 2>&1 | tail -1)
w=$(PYTHONPATH=$W/src timeout 600 /venv/bin/python _seed/demo.py >/dev/null 2>&1; echo $?)
git diff -- src > $W.confirm.p; git apply -R $W.confirm.p
wo=$(PYTHONPATH=$W/src timeout 600 /venv/bin/python _seed/demo.py >/dev/null 2>&1; echo $?)
git apply $W.confirm.p; rm -f $W.confirm.p
echo "$(basename $W) patch:$pd status:$(git status --short | tr '\n' ' ') tests: $t | demo with=$w without=$wo"
