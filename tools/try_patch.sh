#!/bin/sh
# usage: tools/try_patch.sh <patch.diff> <check> [<check>...]   (env VERIF_RUNS etc. pass through)
# Applies the patch to a scratch copy of /repo (never to /repo itself), runs the quick checks
# against it via VERIF_REPO_SRC, prints the verdict lines, removes the copy.
P=$(realpath "$1"); shift
S=$(mktemp -d /tmp/trypatch.XXXXXX)
mkdir -p "$S/tests"
cp -r /repo/src "$S/src"; cp -r /repo/tests/testdocs "$S/tests/testdocs"
( cd "$S" && patch -p1 -s < "$P" ) || { echo "patch failed"; rm -rf "$S"; exit 2; }
cd /verif
for c in "$@"; do
  VERIF_EVIDENCE_DIR="$S/evidence" VERIF_REPLAY_DIR="$S/replays" VERIF_REPO_SRC="$S/src" ./run_check.sh "$c" quick 2>&1 | grep -v conda | cut -c1-300
  echo "exit=$? ($c)"
done
rm -rf "$S"
