"""
C15 - all entry points give the same bytes. Engine B, no error faults.

A run is a history of invocations (CLI forms, file API, usage errors) against one evolving scratch
tree and a model `M: path -> bytes`; the text API (`reformat_text`) on the decoded content is the
reference. The simulator owns what the environment may legally vary: chunking of every raw
read/write (stdin, stdout, files), EINTR, buffer sizes, directory listing order, temp-name stream.
After every invocation the exit class, the stdout bytes and the *whole* tree must equal the
model's prediction; usage errors must leave the tree untouched and perform no mutating operation.
"""

from __future__ import annotations

import os
import random
import re
import shutil
import tempfile
from typing import Any

from . import corpus, simproc
from .core import b2j, ddmin, digest, j2b, shrink_text_lines, sub_rng

CHECK = "C15"
CHUNK = 8
TIERS = {"quick": 1600, "thorough": 30000}
WALL_CAP = {"quick": 420.0, "thorough": 3000.0}
DET_SAMPLE = {"quick": 48, "thorough": 600}
SAMPLE_EVERY = 397
SET_KEYS = ("points", "chunk_classes", "forms")
RULE = (
    "evaluation = one invocation (CLI form / file API call / usage error) executed in-process against the evolving tree under "
    "seeded legal I/O behaviour and compared with the model; distinct_nontrivial = distinct (form, option vector, chunking class) "
    "points whose invocation formatted at least one document on which the invocation's options are discriminating "
    "(flipping any single option coordinate changes the text-API output), or which is a usage error with op-log check."
)
ASSUMPTIONS = [
    "in-process flowmark.cli.main(argv) with fake std streams stands for the real CLI (validated against real subprocesses in the thorough tier)",
    "PYTHONUTF8=1: files are decoded as UTF-8 with universal newlines, stdin as UTF-8/surrogateescape without newline translation",
    "a config file, when the tree has one, sits in the project directory (the cwd) and holds formatting keys only; none exists above the scratch tree",
    "reference = flowmark.reformat_text of the current tree (a change that alters formatting everywhere but keeps agreement does not alarm)",
]
COMPONENTS = {
    "real": ["flowmark.cli (argparse, option plumbing, file resolution)", "flowmark.reformat_api", "strif.atomic_output_file", "pathlib / io buffering", "tmpfs namespace operations"],
    "stub": ["stdin/stdout pipes (PipeSource/PipeSink with seeded chunking)", "raw file reads/writes (SimRaw with seeded short transfers / EINTR)", "directory listing order (seeded permutation)", "strif uid PRNG (seeded)"],
}
SCRATCH_BASE = "/dev/shm" if os.path.isdir("/dev/shm") and os.access("/dev/shm", os.W_OK) else tempfile.gettempdir()

OPT_KEYS = ["width", "plaintext", "semantic", "cleanups", "smartquotes", "ellipses", "list_spacing"]


# ---------------------------------------------------------------------------------------------
# workload


def gen_opts(rng: random.Random) -> dict[str, Any]:
    return {
        "width": rng.choice(corpus.WIDTHS + [88, 88]) if rng.random() < 0.85 else rng.choice([rng.randint(2, 300), rng.randint(2, 100), -rng.randint(1, 50), 1000, 100000]),
        "plaintext": rng.random() < 0.12,
        "semantic": rng.random() < 0.5,
        "cleanups": rng.random() < 0.5,
        "smartquotes": rng.random() < 0.5,
        "ellipses": rng.random() < 0.5,
        "list_spacing": rng.choice(corpus.LIST_SPACINGS),
    }


def opts_argv(rng: random.Random, o: dict[str, Any], auto: bool = False) -> list[str]:
    items: list[list[str]] = []
    if o["width"] != 88 or rng.random() < 0.3:
        r = rng.random()
        if r < 0.65:
            items.append([rng.choice(["-w", "--width"]), str(o["width"])])
        elif r < 0.8:
            items.append([f"--width={o['width']}"])
        elif r < 0.9 and o["width"] >= 0:
            items.append([f"-w{o['width']}"])  # glued short form
        else:
            # given twice: the last one wins
            items.append(["--width", str(rng.choice([33, 120])), "-w", str(o["width"])])
    for name, short in (("plaintext", "-p"), ("semantic", "-s"), ("cleanups", "-c"), ("smartquotes", None), ("ellipses", None)):
        if auto and name != "plaintext":
            # --auto implies these; sometimes also spell them out (must change nothing)
            if rng.random() < 0.15:
                items.append(["--" + name])
            continue
        if o[name]:
            items.append([short if short and rng.random() < 0.5 else "--" + name])
    if o["list_spacing"] != "preserve" or rng.random() < 0.2:
        r = rng.random()
        if r < 0.6:
            items.append(["--list-spacing", o["list_spacing"]])
        elif r < 0.85:
            items.append([f"--list-spacing={o['list_spacing']}"])
        else:
            items.append(["--list-spacing", rng.choice(corpus.LIST_SPACINGS), "--list-spacing", o["list_spacing"]])
    # (argparse keeps a repeated option's values together only if the pair is not split, so
    # shuffle whole items)
    rng.shuffle(items)
    out = [x for it in items for x in it]
    if rng.random() < 0.06:
        # argparse accepts unambiguous prefixes of long options
        abbr = {"--semantic": "--sem", "--cleanups": "--clean", "--smartquotes": "--smart", "--ellipses": "--ell", "--plaintext": "--plain", "--width": "--wid", "--list-spacing": "--list-sp"}
        out = [abbr.get(x, x) for x in out]
    return out


DOC_NAMES = ["a.md", "b.md", "notes.md", "README.md", "docs/c.md", "docs/guide.md", "docs/sub/d.md", "x y.md", "\u00fc.md", "docs/\u65e5\u672c.md",
             "notes[1].md", "notes1.md", "docs/[slug].md"]  # literal names that also read as glob patterns


def gen_doc_bytes(rng: random.Random) -> bytes:
    r = rng.random()
    if r < 0.05:
        return b""
    if r < 0.10:
        return b"caf\xe9 latin-1, not utf-8\n"
    if r < 0.13:
        return corpus.gen_big_doc(rng, rng.choice([70, 130])).encode("utf-8")  # > 64 KiB: several pipe/buffer fills
    body = corpus.gen_doc(rng, rng.randint(1, 5))
    if rng.random() < 0.04:
        body = "\ufeff" + body  # UTF-8 BOM
    if rng.random() < 0.6:
        body = body.rstrip("\n") + "\n\n" + corpus.DISCRIMINATING_DOC
    if rng.random() < 0.12:
        body = body.replace("\n", "\r\n")
    if rng.random() < 0.07:
        # valid UTF-8 that is unusual in text: NUL and other controls, the characters that
        # str.splitlines() (but not a file in text mode) treats as line ends, a lone CR
        # (never inside [...]: a TAB / FF / CR in a footnote label sends marko's FootnoteDef into an
        # endless loop - a defect of the dependency in C12's domain, see DESIGN section 11)
        for _ in range(rng.randint(1, 3)):
            ch = rng.choice(["\x00", "\x00", "\x0b", "\x1c", "\x1d", "\x1e", "\x85", "\u2028", "\u2029", "\r", "\x1b", "\x7f", "\ufffe"])
            lines = body.split("\n")
            ok = [i for i, ln in enumerate(lines) if "[" not in ln and "]" not in ln]
            if not ok:
                break
            i = rng.choice(ok)
            k = rng.randrange(len(lines[i]) + 1)
            lines[i] = lines[i][:k] + ch + lines[i][k:]
            body = "\n".join(lines)
    return body.encode("utf-8")


def gen_invocation(rng: random.Random, files_now: list[str], forced: tuple[str, dict[str, Any]] | None = None) -> dict[str, Any]:
    """files_now: document names that exist at generation time (the model may differ later)."""
    o = gen_opts(rng)
    form = rng.choices(
        ["stdout", "inplace", "inplace_nobackup", "auto", "stdin_stdout", "stdin_o", "multi_stdout", "multi_inplace", "dir", "glob",
         "api_file", "api_files", "err_noinput", "err_auto_noargs", "err_listfiles_noargs", "err_o_multi", "err_inplace_stdin",
         "err_inplace_stdin_first", "err_inplace_file_then_stdin", "dontcare_o_single", "mixed_stdin_file"],
        [12, 9, 7, 10, 8, 8, 7, 6, 6, 4, 7, 4, 1, 1, 1, 2, 2, 1, 2, 2, 2],
    )[0]
    force_several = False
    force_nb: bool | None = None
    if forced is not None:
        form, o = forced[0], dict(forced[1])
        if form == "multi_inplace_nb":
            form, force_nb = "multi_inplace", True
        elif form == "multi_inplace":
            force_nb = False
        elif form == "auto_several":
            form, force_several = "auto", True
    inv: dict[str, Any] = {"form": form, "opts": o}
    f1 = rng.choice(files_now)
    several = rng.sample(files_now, min(len(files_now), rng.randint(2, 3)))
    stdin_doc = gen_doc_bytes(rng)
    if stdin_doc[:3] == b"caf":
        stdin_doc = corpus.DISCRIMINATING_DOC.encode()

    max_size = rng.choice([10, 200, 2000, 100000]) if rng.random() < 0.12 else None
    if max_size is not None:
        inv["max_size"] = max_size

    def place(flags: list[str], args: list[str], auto: bool = False) -> list[str]:
        oa = opts_argv(rng, o, auto)
        if max_size is not None and form not in ("err_noinput", "err_auto_noargs", "err_listfiles_noargs"):
            # only the file resolver looks at the size limit: explicit files that are passed
            # through (no directory or glob among the arguments) are not subject to it
            flags = flags + ["--files-max-size", str(max_size)]
        parts = [flags, oa, args]
        if rng.random() < 0.5:
            parts = [oa, flags, args]
        if rng.random() < 0.2:
            parts = [args, flags, oa]  # argparse accepts options after positionals
        return [x for p in parts for x in p]

    if form == "stdout":
        # (--nobackup without --inplace has no effect)
        inv["argv"] = place((["-o", "-"] if rng.random() < 0.3 else []) + (["--nobackup"] if rng.random() < 0.15 else []), [f1])
        inv["files"] = [f1]
    elif form in ("inplace", "inplace_nobackup"):
        flags = [rng.choice(["-i", "--inplace"])] + (["--nobackup"] if form.endswith("nobackup") else [])
        rng.shuffle(flags)
        inv["argv"] = place(flags, [f1])
        inv["files"] = [f1]
    elif form == "auto":
        fs = [f1] if (rng.random() < 0.6 and not force_several) else several
        if forced is not None and not force_several:
            fs = [f1]
        aflags = ["--auto"]
        if rng.random() < 0.2:
            aflags += rng.sample(["--inplace", "--nobackup", "-i"], rng.randint(1, 2))  # implied anyway
            rng.shuffle(aflags)
        inv["argv"] = place(aflags, fs, auto=True)
        inv["files"] = fs
    elif form == "stdin_stdout":
        inv["argv"] = place([], ["-"])
        inv["stdin"] = b2j(stdin_doc)
    elif form == "stdin_o":
        out = rng.choice(["out.md", "gen/out.md", "gen/deep/o.md", f1])
        inv["argv"] = place([rng.choice(["-o", "--output"]), out], ["-"])
        inv["stdin"] = b2j(stdin_doc)
        inv["output"] = out
    elif form == "multi_stdout":
        if rng.random() < 0.08:
            several = several + [several[0]]  # the same file named twice: processed twice
        inv["argv"] = place([], several)
        inv["files"] = several
    elif form == "multi_inplace":
        if rng.random() < 0.08:
            several = several + [several[0]]
        nb = rng.random() < 0.5 if force_nb is None else force_nb
        inv["argv"] = place(["-i"] + (["--nobackup"] if nb else []), several)
        inv["files"] = several
        inv["nobackup"] = nb
    elif form in ("dir", "glob"):
        sub = rng.choice(["stdout", "inplace", "inplace_nobackup", "auto"])
        arg = rng.choice([".", "docs", "docs/sub"]) if form == "dir" else rng.choice(["*.md", "**/*.md", "docs/*.md"])
        extra = [f1] if rng.random() < 0.3 else []
        flags = {"stdout": [], "inplace": ["-i"], "inplace_nobackup": ["-i", "--nobackup"], "auto": ["--auto"]}[sub]
        if form == "dir" and rng.random() < 0.2:
            flags = flags + ["--extend-include", "*.txt"]
            inv["extend_include"] = ["*.txt"]
        args = [arg] + extra
        rng.shuffle(args)
        inv["argv"] = place(flags, args, auto=(sub == "auto"))
        inv["args"] = args
        inv["sub"] = sub
    elif form == "api_file":
        kind = rng.choice(["stdout_none", "stdout_dash", "output", "inplace", "inplace_nobackup", "stdin_output", "stdin_stdout"])
        api: dict[str, Any] = {"fn": "reformat_file", "path": f1, "output": None, "inplace": False, "nobackup": False}
        if kind == "stdout_dash":
            api["output"] = "-"
        elif kind == "output":
            api["output"] = rng.choice(["api_out.md", "gen/api/o.md", f1])
        elif kind == "inplace":
            api["inplace"] = True
        elif kind == "inplace_nobackup":
            api["inplace"], api["nobackup"] = True, True
        elif kind == "stdin_output":
            api["path"], api["output"] = "-", "api_stdin_out.md"
            inv["stdin"] = b2j(stdin_doc)
        elif kind == "stdin_stdout":
            api["path"] = "-"
            inv["stdin"] = b2j(stdin_doc)
        api["as_path"] = rng.random() < 0.3
        api["plain_strings"] = rng.random() < 0.4
        inv["api"] = api
    elif form == "api_files":
        kind = rng.choice(["stdout", "inplace", "inplace_nobackup", "err_output_multi", "stdin_single_output"])
        api = {"fn": "reformat_files", "files": several, "output": None, "inplace": False, "nobackup": False}
        if kind == "inplace":
            api["inplace"] = True
        elif kind == "inplace_nobackup":
            api["inplace"], api["nobackup"] = True, True
        elif kind == "err_output_multi":
            api["output"] = rng.choice(["never.md", "newdir3/never.md"])
        elif kind == "stdin_single_output":
            api["files"], api["output"] = ["-"], "api_files_out.md"
            inv["stdin"] = b2j(stdin_doc)
        api["plain_strings"] = rng.random() < 0.4
        inv["api"] = api
    elif form == "err_noinput":
        inv["argv"] = opts_argv(rng, o)
    elif form == "err_auto_noargs":
        inv["argv"] = ["--auto"] + opts_argv(rng, o, auto=True)
    elif form == "err_listfiles_noargs":
        inv["argv"] = ["--list-files"]
    elif form == "err_o_multi":
        inv["argv"] = place(["-o", rng.choice(["never.md", "newdir/never.md", "x/y/never.md"])], several if len(several) > 1 else several + several)
    elif form == "err_inplace_stdin":
        inv["argv"] = place(["-i"] + (["--nobackup"] if rng.random() < 0.5 else []) + (["-o", rng.choice(["o.md", "newdir2/o.md"])] if rng.random() < 0.4 else []), ["-"])
        inv["stdin"] = b2j(stdin_doc)
    elif form == "err_inplace_stdin_first":
        inv["argv"] = place(["-i"] + (["--nobackup"] if rng.random() < 0.5 else []), ["-", f1])
        inv["stdin"] = b2j(stdin_doc)
    elif form == "err_inplace_file_then_stdin":
        inv["argv"] = place(["-i"] + (["--nobackup"] if rng.random() < 0.5 else []), [f1, "-"])
        inv["stdin"] = b2j(stdin_doc)
    elif form == "dontcare_o_single":
        inv["argv"] = place(["-o", "single_out.md"], [f1])
        inv["files"] = [f1]
        inv["output"] = "single_out.md"
    elif form == "mixed_stdin_file":
        args = ["-", f1] if rng.random() < 0.5 else [f1, "-"]
        inv["argv"] = place([], args)
        inv["args"] = args
        inv["stdin"] = b2j(stdin_doc)
    return inv


def gen_knobs(rng: random.Random) -> dict[str, Any]:
    return {
        "bufsize": rng.choice([1, 7, 64, 4096, 8192, 8192, 65536]),
        "chunking": rng.choice(["none", "random", "random", "byte"]),
        "eintr": rng.choice([0.0, 0.0, 0.1, 0.3]),
        "chunk_seed": rng.getrandbits(32),
        "listing": rng.choice(["shuffle", "shuffle", "reverse", "native"]),
        "list_seed": rng.getrandbits(32),
    }


GEN_TAKES_INDEX = True
_CELL_FORMS = ["stdout", "multi_stdout", "stdin_stdout", "stdin_o", "inplace", "inplace_nobackup", "multi_inplace", "multi_inplace_nb", "auto", "auto_several"]


def systematic_point(index: int) -> tuple[str, dict[str, Any]]:
    """Thorough tier: run index -> one point of the property's finite option space (complete sweep)."""
    v = index % SPACE_OPTION_VECTORS
    cell = (index // SPACE_OPTION_VECTORS) % len(_CELL_FORMS)
    o: dict[str, Any] = {}
    o["width"] = corpus.WIDTHS[v % len(corpus.WIDTHS)]
    v //= len(corpus.WIDTHS)
    for name in ("plaintext", "semantic", "cleanups", "smartquotes", "ellipses"):
        o[name] = bool(v & 1)
        v >>= 1
    o["list_spacing"] = corpus.LIST_SPACINGS[v % len(corpus.LIST_SPACINGS)]
    return _CELL_FORMS[cell], o


def gen_case(run_seed: int, tier: str, index: int | None = None) -> dict[str, Any]:
    w = sub_rng(run_seed, "workload")
    names = list(DOC_NAMES)
    w.shuffle(names)
    names = sorted(names[: w.randint(2, 5) if w.random() < 0.9 else w.randint(6, 9)])
    tree: dict[str, Any] = {n: {"f": b2j(gen_doc_bytes(w))} for n in names}
    for n in names:
        # some documents start out as fixed points of the first invocation's formatting (the
        # "nothing to change" path of an implementation), with LF or CRLF line endings
        r = w.random()
        if r < 0.12:
            tree[n]["pre"] = "lf"
        elif r < 0.24:
            tree[n]["pre"] = "crlf"
    if w.random() < 0.4:
        tree["keep.txt"] = {"f": b2j(b"not markdown\n")}
    lk = sub_rng(run_seed, "links")
    if lk.random() < 0.2:
        # a symlink to one of the documents: in the root, or in a sub-directory with a target
        # relative to that directory
        tgt = lk.choice(names)
        where = lk.choice(["", "docs", "docs/sub"])
        lname = (where + "/" if where else "") + lk.choice(["link.md", "alias.md"])
        if lname not in tree:
            tree[lname] = {"l": os.path.relpath(tgt, where or ".")}
            names = names + [lname]
    # sometimes the project has a config file with formatting settings: one more way of giving the
    # options to the command line (explicit flag > config file > default; --auto fixes its four
    # switches; the file API does not read it)
    cg = sub_rng(run_seed, "config")
    if cg.random() < 0.1:
        vals: dict[str, Any] = {}
        if cg.random() < 0.7:
            vals["width"] = cg.choice([30, 40, 60, 100])
        for kname in ("semantic", "cleanups", "smartquotes", "ellipses"):
            if cg.random() < 0.4:
                vals[kname] = cg.random() < 0.7
        if cg.random() < 0.4:
            vals["list-spacing"] = cg.choice(corpus.LIST_SPACINGS)
        body = "".join(f"{k_} = {('true' if v_ else 'false') if isinstance(v_, bool) else (v_ if isinstance(v_, int) else chr(34) + v_ + chr(34))}\n" for k_, v_ in vals.items())
        cname = cg.choice([".flowmark.toml", "flowmark.toml", "pyproject.toml"])
        if cname == "pyproject.toml":
            body = '[project]\nname = "x"\n\n[tool.flowmark]\n' + body
        elif cg.random() < 0.3:
            body = "[formatting]\n" + body
        tree[cname] = {"f": b2j(body.encode())}
    if cg.random() < 0.08:
        # a config file that is NOT the project's: it sits in a sub-directory, the command runs in
        # the project directory, so it has no say (whatever mix of files is named)
        tree[cg.choice(["docs/.flowmark.toml", "docs/flowmark.toml", "docs/sub/.flowmark.toml"])] = {"f": b2j(f"width = {cg.choice([24, 33, 50])}\nsemantic = true\nlist-spacing = \"loose\"\n".encode())}
    k = sub_rng(run_seed, "knobs")
    invs = []
    for j in range(w.choice([1, 2, 3, 3, 4, 6])):
        forced = systematic_point(index) if (tier == "thorough" and index is not None and j == 0) else None
        inv = gen_invocation(w, names, forced)
        inv["knobs"] = gen_knobs(k)
        inv["uid_seed"] = k.getrandbits(32)
        # the environment is an input of the command line but not of the property's statement:
        # variables the code under test reads (found in its source; none today) are set in some
        # invocations and must not change any result
        from .check_c14 import env_names

        names_env = env_names()
        if names_env and k.random() < 0.2:
            inv["env"] = {n_: ("dir" if any(t in n_.upper() for t in ("DIR", "TMP", "TEMP", "PATH", "CACHE", "HOME")) else k.choice(["1", "0", "true", "120", "40"])) for n_ in k.sample(names_env, k.randint(1, min(3, len(names_env))))}
        invs.append(inv)
    return {"check": CHECK, "run_seed": run_seed, "tier": tier, "tree": tree, "history": invs}


# ---------------------------------------------------------------------------------------------
# the model


class Model:
    def __init__(self) -> None:
        self.memo: dict[str, Any] = {}

    def fmt_text(self, text: str, o: dict[str, Any]) -> str:
        import flowmark
        from flowmark.formats.flowmark_markdown import ListSpacing

        key = digest([text, o], 20)
        if key not in self.memo:
            try:
                self.memo[key] = flowmark.reformat_text(
                    text, width=o["width"], plaintext=o["plaintext"], semantic=o["semantic"], cleanups=o["cleanups"],
                    smartquotes=o["smartquotes"], ellipses=o["ellipses"], list_spacing=ListSpacing(o["list_spacing"]),
                )
            except Exception as e:  # noqa: BLE001
                self.memo[key] = e
        r = self.memo[key]
        if isinstance(r, Exception):
            raise r
        return r

    def fmt_file(self, data: bytes, o: dict[str, Any]) -> bytes:
        """What the file entry points must produce for a file holding `data` (raises on failure)."""
        text = data.decode("utf-8")  # strict
        text = text.replace("\r\n", "\n").replace("\r", "\n")  # universal newlines
        return self.fmt_text(text, o).encode("utf-8")

    def fmt_stdin(self, data: bytes, o: dict[str, Any]) -> str:
        """What the stdin entry points must produce for `data`. The property demands the same bytes
        as for a file holding `data`, so newlines are read the way file reading reads them
        (universal newlines); undecodable bytes arrive as surrogates (PYTHONUTF8=1: surrogateescape)."""
        text = data.decode("utf-8", "surrogateescape")
        text = text.replace("\r\n", "\n").replace("\r", "\n")
        return self.fmt_text(text, o)

    def discriminating(self, data: bytes, o: dict[str, Any]) -> bool:
        """Does flipping any single option coordinate change the output for this document?"""
        try:
            base = self.fmt_file(data, o)
        except Exception:  # noqa: BLE001
            return False
        if o["plaintext"]:
            alts = [dict(o, plaintext=False), dict(o, width=20 if o["width"] != 20 else 40)]
        else:
            alts = [dict(o, **{k: not o[k]}) for k in ("plaintext", "semantic", "cleanups", "smartquotes", "ellipses")]
            alts.append(dict(o, width=20 if o["width"] != 20 else 40))
            alts += [dict(o, list_spacing=ls) for ls in corpus.LIST_SPACINGS if ls != o["list_spacing"]]
        try:
            return all(self.fmt_file(data, a) != base for a in alts)
        except Exception:  # noqa: BLE001
            return False


def partial_match(model: Model, pred: Pred, stdin: bytes, exit_class: str, stdout: bytes, after: dict[str, bytes]) -> bool:
    """Acceptance of a failing run over several inputs: non-zero exit; every input individually
    either untouched or holding exactly the result it would get alone; nothing else changes."""
    pt = pred.partial
    assert pt is not None
    if exit_class != "nonzero":
        return False
    M0: dict[str, bytes] = pt["M0"]
    files = [f for f in pt["files"]]
    alone: dict[str, bytes | None] = {}
    for f in files:
        if f == "-" or f not in M0:
            continue
        try:
            data0 = content(M0, f)
            alone[f] = None if data0 is None else model.fmt_file(data0, pt["o"])
        except Exception:  # noqa: BLE001
            alone[f] = None
    if pt["mode"] == "stdout":
        if after != M0:
            return False
        pieces: list[bytes] = []
        for f in files:
            if f == "-":
                try:
                    pieces.append(model.fmt_stdin(stdin, pt["o"]).encode("utf-8", "surrogateescape"))
                except Exception:  # noqa: BLE001
                    pieces.append(b"")
            else:
                pieces.append(alone.get(f) or b"")
        acc = b""
        ok_outs = {acc}
        for pc in pieces:
            acc += pc
            ok_outs.add(acc)
        return stdout in ok_outs
    if stdout:
        return False
    for path in set(M0) | set(after):
        cur = after.get(path)
        if path in alone:
            ok_now = {M0[path]} | ({alone[path]} if alone[path] is not None else set())
            ok_orig = {M0[path]}
            if files.count(path) > 1 and alone[path] is not None:
                # named twice: the second pass formats (and backs up) the result of the first
                try:
                    ok_now.add(model.fmt_file(alone[path], pt["o"]))
                    ok_orig.add(alone[path])
                except Exception:  # noqa: BLE001
                    pass
            if cur not in ok_now:
                return False
            if cur != M0[path] and not pt["nobackup"] and after.get(path + ".orig") not in ok_orig:
                return False
        elif path.endswith(".orig") and path[: -len(".orig")] in alone:
            base = path[: -len(".orig")]
            if cur != M0.get(path) and cur != M0[base] and not (files.count(base) > 1 and cur == alone[base]):
                return False
        elif cur != M0.get(path):
            return False
    return True


_CUR_M: dict[str, Any] = {}  # the model tree the invocation being predicted sees (config look-up)

_FLAG_OF = {"-w": "width", "--width": "width", "-s": "semantic", "--semantic": "semantic", "-c": "cleanups", "--cleanups": "cleanups",
            "--smartquotes": "smartquotes", "--ellipses": "ellipses", "--list-spacing": "list_spacing"}


def explicit_flags(argv: list[str]) -> set[str]:
    """Option names actually typed on the command line (all spellings opts_argv produces)."""
    out: set[str] = set()
    for a in argv:
        if not a.startswith("-") or a == "-":
            continue
        head = a.split("=", 1)[0]
        if head in _FLAG_OF:
            out.add(_FLAG_OF[head])
        elif head.startswith("--"):
            m = [v for k, v in _FLAG_OF.items() if k.startswith("--") and k.startswith(head)]
            if len(set(m)) == 1:
                out.add(m[0])  # unambiguous prefix
        elif len(a) > 2 and a[:2] == "-w":
            out.add("width")  # glued short form
    return out


def config_values(M: dict[str, Any]) -> dict[str, Any]:
    """Formatting settings of the config file in the project directory (the cwd), if any."""
    import tomllib

    for name in (".flowmark.toml", "flowmark.toml", "pyproject.toml"):
        data = M.get(name)
        if not isinstance(data, (bytes, bytearray)):
            continue
        try:
            doc = tomllib.loads(bytes(data).decode("utf-8"))
        except Exception:  # noqa: BLE001
            if name == "pyproject.toml":
                continue
            return {}
        if name == "pyproject.toml":
            if "flowmark" not in doc.get("tool", {}):
                continue
            doc = doc["tool"]["flowmark"]
        flat: dict[str, Any] = {}
        for k, v in doc.items():
            if isinstance(v, dict):
                flat.update(v)
            else:
                flat[k] = v
        return {k.replace("-", "_"): v for k, v in flat.items()}
    return {}


def eff_opts(inv: dict[str, Any], auto: bool) -> dict[str, Any]:
    o = dict(inv["opts"])
    if auto:
        o.update(corpus.AUTO_OPTS)
    if inv.get("argv") is not None:
        cfg = config_values(_CUR_M)
        if cfg:
            typed = explicit_flags(inv["argv"])
            for k in ("width", "semantic", "cleanups", "smartquotes", "ellipses", "list_spacing"):
                if k in cfg and k not in typed and not (auto and k in ("semantic", "cleanups", "smartquotes", "ellipses")):
                    o[k] = cfg[k]
    return o


def md_files_under(M: dict[str, bytes], d: str, extra_ext: tuple[str, ...] = ()) -> list[str]:
    pre = "" if d in (".", "") else d.rstrip("/") + "/"
    return [p for p in M if p.startswith(pre) and p.endswith((".md",) + extra_ext)]


def glob_model(M: dict[str, bytes], pat: str) -> list[str]:
    if pat == "*.md":
        return [p for p in M if "/" not in p and p.endswith(".md")]
    if pat == "**/*.md":
        return [p for p in M if p.endswith(".md")]
    if pat == "docs/*.md":
        return [p for p in M if p.startswith("docs/") and p.count("/") == 1 and p.endswith(".md")]
    raise ValueError(pat)


def is_link(v: Any) -> bool:
    return isinstance(v, (tuple, list)) and len(v) == 2 and v[0] == "L"


def deref(M: dict[str, Any], path: str) -> str | None:
    """Follow symlink entries of the model (targets relative to the link's directory)."""
    for _ in range(8):
        v = M.get(path)
        if v is None:
            return None
        if not is_link(v):
            return path
        path = os.path.normpath(os.path.join(os.path.dirname(path), v[1]))
    return None


def content(M: dict[str, Any], path: str) -> bytes | None:
    t = deref(M, path)
    return None if t is None else M[t]


def path_key(p: str) -> tuple[str, ...]:
    return tuple(p.split("/"))  # pathlib orders by parts


class Pred:
    def __init__(self) -> None:
        self.exit = "0"  # "0" | "nonzero" | "any"
        self.stdout: bytes | None = b""
        self.M: dict[str, bytes] = {}
        self.no_write = False
        self.alt: "Pred | None" = None  # a second acceptable outcome (don't-care forms)
        self.formatted: list[tuple[bytes, dict[str, Any]]] = []
        # a run over several inputs in which one input fails: which of the other inputs have
        # been processed when the run stops is not fixed by the property (one by one, all-or-
        # nothing in two phases and keep-going are all legal); see partial_match()
        self.partial: dict[str, Any] | None = None


def predict(model: Model, inv: dict[str, Any], M: dict[str, bytes]) -> Pred:
    global _CUR_M
    _CUR_M = M
    p = Pred()
    p.M = dict(M)
    form = inv["form"]
    stdin = j2b(inv.get("stdin")) or b""
    out = bytearray()

    def do_files(files: list[str], o: dict[str, Any], mode: str, nobackup: bool) -> None:
        """files processed one by one; stops at the first failure (exit nonzero)."""
        for f in files:
            try:
                if f == "-":
                    if mode != "stdout":
                        raise ValueError("inplace with stdin")
                    res_s = model.fmt_stdin(stdin, o)
                    out.extend(res_s.encode("utf-8", "surrogateescape"))
                    p.formatted.append((stdin, o))
                    continue
                data = content(p.M, f)
                if data is None:
                    raise FileNotFoundError(f)
                res = model.fmt_file(data, o)
                p.formatted.append((data, o))
            except Exception:  # noqa: BLE001
                p.exit = "nonzero"
                if len(files) > 1:
                    p.partial = {"files": list(files), "o": o, "mode": mode, "nobackup": nobackup, "M0": dict(M)}
                return
            if mode == "stdout":
                out.extend(res)
            else:
                if not nobackup:
                    p.M[f + ".orig"] = p.M[f]
                p.M[f] = res

    def cli_files(args: list[str]) -> list[str] | None:
        """
        The inputs the CLI processes, in order: arguments are passed through as given unless one of
        them is a directory or contains a glob character - then ALL of them go through the file
        resolver (existing file named explicitly: itself, even if its name reads as a pattern;
        result absolute, de-duplicated, sorted, '-' first). None: the resolver raises first.
        """
        nonstd = [a for a in args if a != "-"]

        def is_dir(a: str) -> bool:
            return a == "." or any(k.startswith(a.rstrip("/") + "/") for k in M)

        if not any(is_dir(a) or any(c in a for c in "*?[") for a in nonstd):
            return list(args)
        found: set[str] = set()
        for a in nonstd:
            if a in M:
                t = deref(M, a)  # an explicitly named symlink is resolved: its target is processed
                if t is None:
                    return None
                found.add(t)
            elif any(c in a for c in "*?["):
                for g in glob_model(M, a):
                    t = deref(M, g)  # glob results are resolved as well
                    if t is not None:
                        found.add(t)
            elif is_dir(a):
                # traversal does not follow symlinks
                found.update(f for f in md_files_under(M, a, (".txt",) if inv.get("extend_include") else ()) if not is_link(M[f]))
            else:
                return None
        if inv.get("max_size"):
            found = {f for f in found if len(M[f]) <= inv["max_size"]}
        files = sorted(found, key=path_key)
        if "-" in args:
            files.insert(0, "-")
        return files

    def run_cli(args: list[str], o: dict[str, Any], mode: str, nobackup: bool) -> None:
        files = cli_files(args)
        if files is None:
            p.exit = "nonzero"  # resolver: path not found -> FileNotFoundError before anything is formatted
            p.stdout = None
            return
        if not files and mode != "stdout":
            return
        do_files(files, o, mode, nobackup)

    if form in ("stdout", "multi_stdout"):
        run_cli(inv["files"], eff_opts(inv, False), "stdout", True)
    elif form in ("inplace", "inplace_nobackup"):
        run_cli(inv["files"], eff_opts(inv, False), "inplace", form.endswith("nobackup"))
    elif form == "multi_inplace":
        run_cli(inv["files"], eff_opts(inv, False), "inplace", inv["nobackup"])
    elif form == "auto":
        run_cli(inv["files"], eff_opts(inv, True), "inplace", True)
    elif form == "stdin_stdout":
        do_files(["-"], eff_opts(inv, False), "stdout", True)
    elif form == "mixed_stdin_file":
        run_cli(inv["args"], eff_opts(inv, False), "stdout", True)
    elif form == "stdin_o":
        o = eff_opts(inv, False)
        try:
            res_s = model.fmt_stdin(stdin, o)
            p.M[inv["output"]] = res_s.encode("utf-8")  # files are written as strict UTF-8
            p.formatted.append((stdin, o))
        except Exception:  # noqa: BLE001
            p.exit = "nonzero"
    elif form in ("dir", "glob"):
        sub = inv["sub"]
        run_cli(inv["args"], eff_opts(inv, sub == "auto"), "stdout" if sub == "stdout" else "inplace", sub in ("inplace_nobackup", "auto"))
        if p.stdout is None:
            return p
    elif form == "api_file":
        api = inv["api"]
        o = eff_opts(inv, False)
        if api["inplace"]:
            if api["path"] == "-":
                p.exit = "nonzero"
            else:
                do_files([api["path"]], o, "inplace", api["nobackup"])
        elif api["output"] in (None, "-"):
            do_files([api["path"]], o, "stdout", True)
        else:
            try:
                if api["path"] == "-":
                    res_b = model.fmt_stdin(stdin, o).encode("utf-8")
                    p.formatted.append((stdin, o))
                else:
                    data_in = content(p.M, api["path"])
                    if data_in is None:
                        raise FileNotFoundError(api["path"])
                    res_b = model.fmt_file(data_in, o)
                    p.formatted.append((data_in, o))
                p.M[api["output"]] = res_b
            except Exception:  # noqa: BLE001
                p.exit = "nonzero"
    elif form == "api_files":
        api = inv["api"]
        o = eff_opts(inv, False)
        if api["files"] == ["-"]:
            try:
                p.M[api["output"]] = model.fmt_stdin(stdin, o).encode("utf-8")
                p.formatted.append((stdin, o))
            except Exception:  # noqa: BLE001
                p.exit = "nonzero"
        elif api["output"] and not api["inplace"]:
            p.exit, p.no_write = "nonzero", True
        else:
            do_files(api["files"], o, "inplace" if api["inplace"] else "stdout", api["nobackup"])
    elif form.startswith("err_"):
        p.exit, p.no_write = "nonzero", True
    elif form == "dontcare_o_single":
        # the single-file `-o FILE` form: either refused without writing anything, or honoured
        p.exit, p.no_write = "nonzero", True
        alt = Pred()
        alt.M = dict(M)
        try:
            alt.M[inv["output"]] = model.fmt_file(content(M, inv["files"][0]) or b"", eff_opts(inv, False))
            alt.exit = "0"
            p.alt = alt
        except Exception:  # noqa: BLE001
            pass
    else:
        raise ValueError(form)
    if p.stdout is not None:
        p.stdout = bytes(out)
    return p


# ---------------------------------------------------------------------------------------------
# execution


class Env:
    def __init__(self) -> None:
        self.run: Any = None

    def setup(self) -> None:
        from . import check_c14

        check_c14.Env().setup()

    def close(self) -> None:
        pass

    def info(self) -> dict[str, Any]:
        return {"scratch_base": SCRATCH_BASE}


def make_fn(inv: dict[str, Any]) -> Any:
    if "argv" in inv:
        argv = list(inv["argv"])

        def fn() -> Any:
            from flowmark.cli import main

            return main(argv)

        return fn
    api = inv["api"]
    o0 = inv["opts"]

    def fn2() -> Any:
        import flowmark
        from flowmark.formats.flowmark_markdown import ListSpacing
        from flowmark.reformat_api import reformat_files

        o = dict(o0)
        if not api.get("plain_strings"):
            o["list_spacing"] = ListSpacing(o["list_spacing"])  # (else: the documented plain string "preserve"/"loose"/"tight")
        if api["fn"] == "reformat_file":
            pth, outp = api["path"], api["output"]
            if api.get("as_path"):  # pathlib.Path objects instead of str (except the '-' markers)
                from pathlib import Path

                pth = Path(pth) if pth != "-" else pth
                outp = Path(outp) if outp not in (None, "-") else outp
            flowmark.reformat_file(pth, outp, inplace=api["inplace"], nobackup=api["nobackup"], **o)
        else:
            reformat_files(api["files"], api["output"], inplace=api["inplace"], nobackup=api["nobackup"], **o)
        return 0

    return fn2


def tree_files(root: str) -> dict[str, Any]:
    snap = simproc.snapshot(root)
    out: dict[str, Any] = {}
    for rel, ent in snap.items():
        if ent[0] == "f":
            out[rel] = ent[1]
        elif ent[0] == "l":
            out[rel] = ("L", ent[1])
    return out


def tree_spec(M: dict[str, Any]) -> dict[str, Any]:
    return {rel: ({"l": v[1]} if is_link(v) else {"f": v}) for rel, v in M.items()}


def tree_dirs(root: str) -> set[str]:
    return {rel for rel, ent in simproc.snapshot(root).items() if ent[0] == "d"}


def implied_dirs(files: dict[str, bytes]) -> set[str]:
    out: set[str] = set()
    for rel in files:
        parts = rel.split("/")[:-1]
        for i in range(1, len(parts) + 1):
            out.add("/".join(parts[:i]))
    return out


_UID = re.compile(r"[0-9a-z]{13}\.partial")


def norm_oplog(log: list[simproc.Op]) -> list[Any]:
    out = []
    for o in log:
        if o.op in ("stat", "read", "write", "stdout.write", "stdin.read", "scandir"):
            continue  # counts of these depend on chunking; namespace-level sequence must agree
        out.append([o.op, [_UID.sub("#.partial", p) for p in o.paths], o.outcome])
    return out


def chunk_class(ip: simproc.Interposer) -> str:
    k = ip.knobs
    lf = ip.legal_fires
    return f"{k.get('chunking')}/buf{k.get('bufsize')}/{'eintr' if any(n.startswith('eintr') for n in lf) else 'noeintr'}/{'short' if any(n.startswith('short') for n in lf) else 'full'}"


def space_cell(inv: dict[str, Any]) -> str | None:
    """Cell of the property's finite space {stdout,-o,inplace,inplace+nobackup,auto} x {file,stdin,several}."""
    form = inv["form"]
    table = {
        "stdout": "stdout/file", "multi_stdout": "stdout/several", "stdin_stdout": "stdout/stdin", "mixed_stdin_file": "stdout/several",
        "stdin_o": "-o/stdin", "inplace": "inplace/file", "inplace_nobackup": "inplace+nobackup/file",
    }
    if form in table:
        return table[form]
    if form == "multi_inplace":
        return ("inplace+nobackup" if inv.get("nobackup") else "inplace") + "/several"
    if form == "auto":
        return "auto/" + ("file" if len(inv.get("files", [])) == 1 else "several")
    if form in ("dir", "glob"):
        return {"stdout": "stdout", "inplace": "inplace", "inplace_nobackup": "inplace+nobackup", "auto": "auto"}[inv["sub"]] + "/several"
    return None


SPACE_CELLS = 10  # valid (mode, input kind) cells; the other 5 are the usage errors / don't-care
SPACE_OPTION_VECTORS = len(corpus.WIDTHS) * 2**5 * len(corpus.LIST_SPACINGS)


def spelled_out(argv: list[str]) -> list[str]:
    i = argv.index("--auto")
    return argv[:i] + ["--inplace", "--nobackup", "--semantic", "--cleanups", "--smartquotes", "--ellipses"] + argv[i + 1 :]


def _env_of(inv: dict[str, Any], scratch: str) -> dict[str, str] | None:
    """Environment variables of this invocation (names the code under test reads; none today)."""
    spec = inv.get("env")
    if not spec:
        return None
    stage = os.path.join(scratch, "envdir")
    os.makedirs(stage, exist_ok=True)
    return {k_: (stage if v_ == "dir" else v_) for k_, v_ in spec.items()}


def run_case(env: Env, case: dict[str, Any], want_trace: bool = False) -> dict[str, Any]:
    outer = tempfile.mkdtemp(prefix="dst-c15-" + os.environ.get("VERIF_RUN_TAG", "x") + "-", dir=SCRATCH_BASE)
    scratch = os.path.join(outer, "s", "s")  # nested, so that a defective `..` resolution under test stays inside the scratch directory
    try:
        os.makedirs(scratch)
        return _run_case(case, scratch, want_trace)
    finally:
        shutil.rmtree(outer, ignore_errors=True)


def _run_case(case: dict[str, Any], scratch: str, want_trace: bool) -> dict[str, Any]:
    root = os.path.join(scratch, "t")
    os.makedirs(root)
    M: dict[str, Any] = {rel: (("L", ent["l"]) if "l" in ent else (j2b(ent["f"]) or b"")) for rel, ent in case["tree"].items()}
    model = Model()
    if case["history"]:
        inv0 = case["history"][0]
        global _CUR_M
        _CUR_M = M
        o0 = eff_opts(inv0, "--auto" in (inv0.get("argv") or []))
        for rel, ent in case["tree"].items():
            if ent.get("pre") and not is_link(M[rel]):
                try:
                    fixed = model.fmt_file(M[rel], o0)
                    fixed = model.fmt_file(fixed, o0)  # (formatting is not always idempotent; two passes get closer)
                except Exception:  # noqa: BLE001
                    continue
                M[rel] = fixed.replace(b"\n", b"\r\n") if ent["pre"] == "crlf" else fixed
    simproc.build_tree(root, tree_spec(M))
    M0 = dict(M)
    violations: list[dict[str, Any]] = []
    counters: dict[str, Any] = {"histories": 1, "invocations": 0, "forms": {}, "legal_fires": {}, "usage_errors_checked": 0, "twin_runs": 0, "discriminating_invocations": 0, "listing_permuted": 0, "fs_ops": 0}
    points: set[str] = set()
    space_points: set[str] = set()
    chunk_classes: set[str] = set()
    forms: set[str] = set()
    trace: list[Any] = []
    nontrivial_points: set[str] = set()
    hist_log: list[Any] = []

    inproc: list[tuple[Any, bytes, dict[str, bytes]]] = []
    dirs_now: set[str] = tree_dirs(root)
    for idx, inv in enumerate(case["history"]):
        dirs_before = dirs_now
        form = inv["form"]
        pred = predict(model, inv, M)
        ip = simproc.Interposer(root, [], inv.get("knobs") or {})
        stdin = j2b(inv.get("stdin")) or b""
        res = simproc.run_process(ip, make_fn(inv), stdin, cwd=root, uid_seed=inv.get("uid_seed", 0), env=_env_of(inv, scratch))
        after = tree_files(root)
        dirs_now = tree_dirs(root)
        inproc.append((res.exit, res.stdout, after))
        counters["invocations"] += 1
        counters["forms"][form] = counters["forms"].get(form, 0) + 1
        counters["fs_ops"] += len(ip.log)
        counters["listing_permuted"] += ip.perm_changed
        for n, c in ip.legal_fires.items():
            counters["legal_fires"][n] = counters["legal_fires"].get(n, 0) + c
        cc = chunk_class(ip)
        chunk_classes.add(cc)
        forms.add(form)
        ov = [inv["opts"][k] for k in OPT_KEYS]
        point = digest([form, inv.get("sub"), (inv.get("api") or {}).get("fn"), ov, cc], 12)
        points.add(digest([form, inv.get("sub"), ov], 12))
        cell = space_cell(inv)
        if cell is not None and inv["opts"]["width"] in corpus.WIDTHS:
            space_points.add(cell + "|" + "/".join(str(x) for x in ov))
        disc = any(model.discriminating(d, o) for d, o in pred.formatted[:2])
        if disc:
            counters["discriminating_invocations"] += 1
        wrote = [o.rec() for o in ip.log if o.op in simproc.MUTATING and (o.outcome == "ok" or "crash" in o.outcome)]

        def same_tree(got: dict[str, bytes], want: dict[str, bytes], before: dict[str, bytes]) -> bool:
            """Equal trees - except that a backup of a file whose bytes do not change may be
            skipped (the property fixes the formatted bytes, not whether an unchanged file is
            backed up): FILE.orig may then keep its previous state."""
            if got == want:
                return True
            for path in set(got) | set(want):
                if got.get(path) == want.get(path):
                    continue
                if is_link(before.get(path)) and got.get(path) == before.get(path) and isinstance(want.get(path), bytes) and content(got, path) == want[path]:
                    continue  # a no-op pass over a symlink argument may leave the link in place (same bytes through it)
                base = path[: -len(".orig")] if path.endswith(".orig") else None
                if base is not None and is_link(before.get(base)) and got.get(base) == before.get(base) and got.get(path) == before.get(path) and content(got, base) == (want.get(base) if isinstance(want.get(base), bytes) else None):
                    continue  # ... and then there is no backup of it either
                if base is not None and base in before and got.get(base) == want.get(base):
                    # the file itself is right; its backup may legitimately be: skipped when a
                    # pass changes nothing (previous .orig state kept), or the content the file
                    # had when the invocation started (a file named twice: second pass is a no-op)
                    if got.get(path) == before.get(path) and want.get(base) == before.get(base):
                        continue
                    if got.get(path) == before.get(base):
                        continue
                return False
            return True

        def matches(pr: Pred) -> str | None:
            if pr.exit != "any" and res.exit_class() != pr.exit:
                return "exit-mismatch"
            if pr.no_write and (wrote or after != pr.M or dirs_now != dirs_before):
                return "usage-error-wrote"
            if pr.stdout is not None and res.stdout != pr.stdout:
                return "stdout-mismatch"
            if not same_tree(after, pr.M, M):
                return "tree-mismatch"
            if dirs_now != dirs_before | implied_dirs(pr.M):
                return "usage-error-wrote" if pr.no_write else "stray-directory"
            return None

        what = matches(pred)
        if what is not None and pred.alt is not None and matches(pred.alt) is None:
            what = None
        if what is not None and pred.partial is not None and partial_match(model, pred, stdin, res.exit_class(), res.stdout, after) and dirs_now == dirs_before:
            what = None
            counters["partial_failure_runs_accepted_in_other_legal_order"] = counters.get("partial_failure_runs_accepted_in_other_legal_order", 0) + 1
        if pred.no_write:
            counters["usage_errors_checked"] += 1
        if disc or pred.no_write:
            nontrivial_points.add(point)
        hist_log.append([form, res.exit_class(), digest(res.stdout, 10), digest(sorted((k, digest(v, 8)) for k, v in after.items()), 10), norm_oplog(ip.log)])
        if want_trace:
            trace.append({"form": form, "argv": inv.get("argv"), "exit": res.exit, "exc": res.exc, "stderr": res.stderr[-300:].decode("utf-8", "replace"), "oplog": [o.rec() for o in ip.log][:200]})
        if what is not None:
            diff = sorted(k for k in set(after) | set(pred.M) if after.get(k) != pred.M.get(k))
            detail = {
                "invocation": idx,
                "form": form,
                "argv": inv.get("argv"),
                "api": inv.get("api"),
                "what": what,
                "exit": res.exit,
                "expected_exit": pred.exit,
                "exc": res.exc,
                "stderr": res.stderr[-300:].decode("utf-8", "replace"),
                "tree_diff": diff[:6],
                "stdout_len": [len(res.stdout), None if pred.stdout is None else len(pred.stdout)],
                "mutating_ops": wrote[:6],
            }
            if diff:
                k0 = diff[0]
                detail["first_diff"] = {"path": k0, "observed": b2j((after.get(k0) or b"")[:300]) if k0 in after else None, "expected": b2j((pred.M.get(k0) or b"")[:300]) if k0 in pred.M else None}
            sub = inv.get("sub") or (inv.get("api") or {}).get("fn") or ""
            violations.append({"fingerprint": f"C15/{form}{'/' + sub if sub else ''}/{what}", "detail": detail, "case": dict(case, history=case["history"][: idx + 1])})
            break
        # ---- twin: --auto vs. the spelled-out flags on an identical tree
        if "argv" in inv and "--auto" in inv["argv"] and not form.startswith("err"):
            root2 = os.path.join(scratch, "twin")
            if os.path.isdir(root2):
                shutil.rmtree(root2)
            os.makedirs(root2)
            simproc.build_tree(root2, tree_spec(M))
            ip2 = simproc.Interposer(root2, [], inv.get("knobs") or {})
            inv2 = dict(inv, argv=spelled_out(inv["argv"]))
            res2 = simproc.run_process(ip2, make_fn(inv2), stdin, cwd=root2, uid_seed=inv.get("uid_seed", 0), env=_env_of(inv, scratch))
            after2 = tree_files(root2)
            counters["twin_runs"] += 1
            # (outcome equivalence; the sequence of file-system operations is the implementation's business)
            if after2 != after or res2.stdout != res.stdout or res2.exit != res.exit:
                violations.append({
                    "fingerprint": "C15/auto/twin-mismatch",
                    "detail": {"invocation": idx, "argv": inv["argv"], "twin_argv": inv2["argv"], "tree_equal": after2 == after, "stdout_equal": res2.stdout == res.stdout, "exits": [res.exit, res2.exit], "oplog_equal": norm_oplog(ip2.log) == norm_oplog(ip.log)},
                    "case": dict(case, history=case["history"][: idx + 1]),
                })
                break
        M = dict(after)  # the tree is the truth for the next invocation (it equals the prediction)

    # ---- validation of the in-process stand-in against the real CLI in real subprocesses
    sample_mod = 6 if case.get("tier") == "thorough" else 40
    if not violations and case["run_seed"] % sample_mod == 0 and all("argv" in inv for inv in case["history"]):
        bad = _real_cli_history(case, scratch, inproc, M0)
        counters["real_subprocess_invocations"] = len(case["history"])
        if bad:
            return {"verdict": "harness_error", "trace": "in-process main(argv) and the real CLI subprocess disagree: " + repr(bad), "digest": "", "counters": counters}

    res_d: dict[str, Any] = {
        "verdict": "violation" if violations else "ok",
        "fingerprint": violations[0]["fingerprint"] if violations else "",
        "detail": violations[0]["detail"] if violations else {},
        "violations": violations,
        "digest": digest(hist_log, 24),
        "nontrivial": bool(nontrivial_points),
        "nontrivial_points": sorted(nontrivial_points),
        "counters": counters,
        "points": sorted(points),
        "space_points": sorted(space_points),
        "chunk_classes": sorted(chunk_classes),
        "forms": sorted(forms),
    }
    if want_trace:
        res_d["trace"] = trace
    return res_d


SET_KEYS = ("points", "chunk_classes", "forms", "nontrivial_points", "space_points")


def _real_cli_history(case: dict[str, Any], scratch: str, inproc: list[tuple[Any, bytes, dict[str, bytes]]], M0: dict[str, bytes]) -> dict[str, Any] | None:
    import subprocess
    import sys

    from .core import repo_src

    real = os.path.join(scratch, "real")
    os.makedirs(real)
    simproc.build_tree(real, tree_spec(M0))
    env = dict(os.environ, PYTHONPATH=repo_src(), PYTHONUTF8="1", PYTHONDONTWRITEBYTECODE="1")
    rng = random.Random(case["run_seed"])
    for idx, inv in enumerate(case["history"]):
        stdin = j2b(inv.get("stdin")) or b""
        p = subprocess.Popen([sys.executable, "-m", "flowmark.cli", *inv["argv"]], cwd=real, env=env, stdin=subprocess.PIPE, stdout=subprocess.PIPE, stderr=subprocess.PIPE)
        assert p.stdin is not None
        pos = 0
        try:
            while pos < len(stdin):
                n = rng.choice([1, 3, 17, 256, 4096, len(stdin)])
                p.stdin.write(stdin[pos : pos + n])
                p.stdin.flush()
                pos += n
            p.stdin.close()
        except BrokenPipeError:
            pass
        out = p.stdout.read() if p.stdout else b""
        err = p.stderr.read() if p.stderr else b""
        rc = p.wait(timeout=120)
        tree = tree_files(real)
        e_exit, e_out, e_tree = inproc[idx]
        if rc != e_exit or out != e_out or tree != e_tree:
            return {"invocation": idx, "argv": inv["argv"], "rc": [rc, e_exit], "stdout_equal": out == e_out, "tree_diff": sorted(k for k in set(tree) | set(e_tree) if tree.get(k) != e_tree.get(k))[:5], "stderr": err[-300:].decode("utf-8", "replace")}
    return None


def sample_of(case: dict[str, Any], res: dict[str, Any]) -> dict[str, Any]:
    return {
        "run_seed": case["run_seed"],
        "tree": {rel: (ent if "l" in ent else len(j2b(ent["f"]) or b"")) for rel, ent in case["tree"].items()},
        "history": [{"form": inv["form"], "argv": inv.get("argv"), "api": inv.get("api"), "knobs": inv.get("knobs")} for inv in case["history"]],
        "digest": res["digest"],
    }


def evidence_extras(counters: dict[str, Any], sets: dict[str, set[str]], runs: dict[int, dict[str, Any]]) -> dict[str, Any]:
    return {
        "evaluations": counters.get("invocations", 0),
        "histories": counters.get("histories", 0),
        "distinct_nontrivial": len(sets.get("nontrivial_points", ())),
        "distinct_form_x_option_vector_points": len(sets.get("points", ())),
        "property_option_space": {
            "points_covered": len(sets.get("space_points", ())),
            "points_total": SPACE_CELLS * SPACE_OPTION_VECTORS,
            "definition": "valid (mode, input kind) cells {stdout,-o,inplace,inplace+nobackup,auto} x {file,stdin,several} (10 of 15; the rest are usage errors) x 6 widths x 2^5 switches x 3 list spacings",
        },
        "distinct_chunking_classes": sorted(sets.get("chunk_classes", ()))[:60],
        "forms_exercised": sorted(sets.get("forms", ())),
        "legal_io_fires": counters.get("legal_fires", {}),
        "usage_error_invocations_with_oplog_check": counters.get("usage_errors_checked", 0),
        "auto_twin_runs": counters.get("twin_runs", 0),
        "discriminating_invocations": counters.get("discriminating_invocations", 0),
        "logical_time_fs_operations": counters.get("fs_ops", 0),
        "invocations_cross_checked_against_real_cli_subprocess": counters.get("real_subprocess_invocations", 0),
    }


# ---------------------------------------------------------------------------------------------
# minimisation


def minimise(env: Env, case: dict[str, Any], fp: str, budget_evals: int = 300) -> dict[str, Any]:
    import copy

    budget = [budget_evals]

    import time as _time

    deadline = _time.time() + float(os.environ.get("VERIF_MINIMISE_BUDGET_S", "150"))

    def fails(c: dict[str, Any]) -> bool:
        if budget[0] <= 0 or _time.time() > deadline:
            return False  # out of evaluations or wall-clock: keep the best case found so far
        budget[0] -= 1
        r = env.run(c)
        return r["verdict"] == "violation" and any(v["fingerprint"] == fp for v in r.get("violations", []))

    best = case
    hist = best["history"]
    # keep the last (failing) invocation, drop earlier ones
    if len(hist) > 1:
        idx = list(range(len(hist) - 1))
        kept = ddmin(idx, lambda ks: fails(dict(best, history=[hist[i] for i in ks] + [hist[-1]])), budget)
        best = dict(best, history=[hist[i] for i in kept] + [hist[-1]])
    # default knobs
    plain = {"bufsize": 8192, "chunking": "none", "eintr": 0.0, "chunk_seed": 0, "listing": "native", "list_seed": 0}
    cand = dict(best, history=[dict(inv, knobs=plain) for inv in best["history"]])
    if fails(cand):
        best = cand
    # drop files not named by any invocation
    words = {w for inv in best["history"] for w in (inv.get("argv") or []) + (inv.get("files") or []) + (inv.get("args") or []) + ((inv.get("api") or {}).get("files") or []) + [(inv.get("api") or {}).get("path") or ""]}
    droppable = [r for r in best["tree"] if r not in words]
    if droppable:
        kept_d = ddmin(droppable, lambda ds: fails(dict(best, tree={r: e for r, e in best["tree"].items() if r in ds or r not in droppable})), budget)
        best = dict(best, tree={r: e for r, e in best["tree"].items() if r in kept_d or r not in droppable})
    # shrink documents and stdin
    for rel, ent in list(best["tree"].items()):
        if "f" not in ent or "t" not in ent["f"]:
            continue

        def test(txt: str, rel: str = rel) -> bool:
            c = copy.deepcopy(best)
            c["tree"][rel] = {"f": {"t": txt}}
            return fails(c)

        newt = shrink_text_lines(ent["f"]["t"], test, budget)
        if newt != ent["f"]["t"]:
            best = copy.deepcopy(best)
            best["tree"][rel] = {"f": {"t": newt}}
    return dict(best, minimised=True, minimise_evals=budget_evals - budget[0])
