"""
C17 workload generator (TreeGen) and independent reference walk.

Does not import flowmark or pathspec. The pattern vocabulary for include / exclude / ignore
rules is restricted to forms whose gitignore meaning is unambiguous:

    name        basename of a file or directory, any depth
    name/       basename of a directory, any depth
    *.ext pre*  fnmatch on the basename (file or directory; with trailing / directories only)
    a/b  /a     path anchored at the directory of the ignore file (only in .flowmarkignore)

The reference classifies every file of the scratch area, for given arguments and settings, as
MUST be listed, MAY be listed (statement silent / ambiguous: enumerated below), or forbidden
(with the reason).
"""

from __future__ import annotations

import fnmatch
import os
import random
from typing import Any

DEFAULT_EXCLUDED_NAMES = [
    ".git", ".hg", ".svn", ".bzr", "_darcs", ".venv", "venv", "__pycache__", ".tox", ".nox", ".mypy_cache", ".ruff_cache",
    ".pytest_cache", ".eggs", "build", "dist", "node_modules", ".next", ".nuxt", ".output", ".cache", ".parcel-cache",
    ".turbo", ".idea", ".vscode", ".vs", ".fleet", "coverage", "htmlcov", ".coverage", "vendor", "third_party", "Pods",
    "target", ".terraform",
]
DEFAULT_EXCLUDE_PATTERNS = [n + "/" for n in DEFAULT_EXCLUDED_NAMES] + ["*.egg-info/"]

ORDINARY_DIRS = ["docs", "src", "sub", "guide", "notes", "a b", "drafts", "archive", "x", "dé", "re\u0301sume\u0301"]  # (the last one in decomposed form, NFD)
EXCL_DIRS = DEFAULT_EXCLUDED_NAMES + ["pkg.egg-info", "x.egg-info", "node_modules", "build", ".git"]  # every default, common ones weighted
FILE_STEMS = ["a", "b", "README", "notes", "index", "x y", "ü", "draft", "CHANGELOG", "[v1]", "q?", "star*", ".hidden", "big",
              "cafe\u0301", "\u212bngstro\u0308m", "\uf900"]  # names that are not NFC (decomposed accents, Angstrom sign, a CJK compatibility ideograph): a file system keeps them as they are
EXTS = [".md", ".md", ".md", ".md", ".mdx", ".txt", ".markdown", ".MD", ""]


# ---------------------------------------------------------------------------------------------
# pattern matching (restricted vocabulary)


def parse_rule(line: str) -> dict[str, Any] | None:
    s = line.strip()
    if not s or s.startswith("#"):
        return None
    neg = s.startswith("!")
    if neg:
        s = s[1:]
    dir_only = s.endswith("/")
    core = s.rstrip("/")
    if core.startswith("**/") and "/" not in core[3:]:
        core = core[3:]  # "**/name" means the same as "name"
    under = core.endswith("/**")
    if under:
        core = core[: -len("/**")]  # "dir/**": everything below dir (anchored), not dir itself
    anchored = "/" in core or under
    return {"raw": ("!" if neg else "") + s, "dir_only": dir_only and not under, "anchored": anchored, "pat": core.lstrip("/"), "neg": neg, "under": under}


def rule_matches(rule: dict[str, Any], rel_from_rule_dir: str, is_dir: bool) -> bool:
    """Does the rule match this very path (not an ancestor)? rel is relative to the rule's dir."""
    if rule["dir_only"] and not is_dir:
        return False
    if rule.get("under"):
        return rel_from_rule_dir.startswith(rule["pat"] + "/")
    if rule["anchored"]:
        return rel_from_rule_dir == rule["pat"]
    return fnmatch.fnmatchcase(os.path.basename(rel_from_rule_dir), rule["pat"])


def any_component_matches(rules: list[dict[str, Any]], rel: str, is_dir_last: bool, from_depth: int = 0) -> dict[str, Any] | None:
    """
    gitignore semantics for the restricted vocabulary: a path is ignored when the path itself or
    any of its ancestor directories (below the rule's directory) matches a rule. `from_depth`:
    number of leading components to skip (components above the walk root are not judged).
    """
    parts = rel.split("/")
    for i in range(from_depth, len(parts)):
        sub = "/".join(parts[: i + 1])
        is_dir = True if i < len(parts) - 1 else is_dir_last
        # last matching rule wins; "!rule" re-includes; an ignored directory cannot be re-entered
        last = None
        for r in rules:
            if rule_matches(r, sub, is_dir):
                last = r
        if last is not None and not last.get("neg"):
            return last
    return None


def basename_rules(patterns: list[str]) -> list[dict[str, Any]]:
    return [r for r in (parse_rule(p) for p in patterns) if r is not None]


# ---------------------------------------------------------------------------------------------
# TreeGen


def gen_tree(rng: random.Random) -> dict[str, Any]:
    """
    Returns {"entries": {rel: ent}, ...} where rel is relative to the scratch dir; the tree root
    (cwd of the simulated process) is "t"; "outside/..." holds link targets outside the tree.
    ent: {"f": size} | {"l": target} | {"d": 1} | {"txt": content} (ignore files)
    """
    entries: dict[str, Any] = {"t": {"d": 1}}
    dirs = ["t"]
    n_dirs = rng.randint(0, 7)
    for _ in range(n_dirs):
        parent = rng.choice(dirs)
        if parent.count("/") >= 4:
            continue
        name = rng.choice(EXCL_DIRS) if rng.random() < 0.3 else rng.choice(ORDINARY_DIRS)
        d = parent + "/" + name
        if d not in entries:
            entries[d] = {"d": 1}
            dirs.append(d)
    limit = rng.choice([0, 40, 40, 100, 1_048_576])
    n_files = rng.randint(2, 18)
    for _ in range(n_files):
        parent = rng.choice(dirs)
        name = rng.choice(FILE_STEMS) + rng.choice(EXTS)
        if name in ("", ".hidden") and rng.random() < 0.5:
            name = ".hidden.md"
        p = parent + "/" + name
        if p in entries or name in ("", ".", ".."):
            continue
        if limit and limit < 1000:
            size = rng.choice([0, 1, limit - 1, limit, limit + 1, limit * 2, 5])
        else:
            size = rng.choice([0, 1, 5, 30, 200])
        entries[p] = {"f": size}
    # a FIFO with a matching name (not a file: must never be listed - and reading it would block)
    if rng.random() < 0.08:
        parent = rng.choice(dirs)
        fp = parent + "/" + rng.choice(["pipe.md", "fifo.md", "queue.mdx"])
        if fp not in entries:
            entries[fp] = {"fifo": 1}
    # outside area
    entries["outside"] = {"d": 1}
    entries["outside/secret.md"] = {"f": 7}
    entries["outside/deep"] = {"d": 1}
    entries["outside/deep/o.md"] = {"f": 9}
    files = [p for p, e in entries.items() if "f" in e and p.startswith("t/")]
    # hard links: a second (and third) name for the same inode - distinct files for discovery
    for _ in range(rng.choice([0, 0, 0, 0, 1, 2])):
        if not files:
            break
        tgt = rng.choice(files)
        parent = rng.choice(dirs)
        hp = parent + "/" + rng.choice(["hard", "same", "dup", "a", "README"]) + rng.choice([".md", ".md", ".mdx", ".txt"])
        if hp not in entries and "f" in entries.get(tgt, {}):
            entries[hp] = {"hl": tgt}
    # symlinks
    for _ in range(rng.choice([0, 0, 1, 2, 3])):
        parent = rng.choice(dirs)
        kind = rng.choice(["file_in", "file_out", "dir_in", "dir_out", "dangling", "cycle", "file_in_nonmd"])
        lname = rng.choice(["link", "ln", "alias"]) + rng.choice([".md", ".md", "", ".txt"])
        lp = parent + "/" + lname
        if lp in entries:
            continue
        depth = parent.count("/") + 1  # components below scratch
        up = "../" * depth
        if kind == "file_in" and files:
            tgt = rng.choice(files)
            entries[lp] = {"l": up + tgt}
        elif kind == "file_in_nonmd" and files:
            cands = [f for f in files if not f.endswith(".md")] or files
            entries[lp] = {"l": up + rng.choice(cands)}
        elif kind == "file_out":
            entries[lp] = {"l": up + rng.choice(["outside/secret.md", "outside/deep/o.md"])}
        elif kind == "dir_in":
            entries[lp] = {"l": up + rng.choice(dirs)}
        elif kind == "dir_out":
            entries[lp] = {"l": up + rng.choice(["outside", "outside/deep"])}
        elif kind == "dangling":
            entries[lp] = {"l": "nowhere/none.md"}
        else:
            entries[lp] = {"l": "."}
    # ignore files
    ign_vocab_base = ["draft.md", "notes.md", "drafts/", "archive/", "*.txt", "README*", "x/", "big.md", "a.md", "index.*", "# comment", "", "guide", "sub/"]
    if rng.random() < 0.45:
        rules = rng.sample(ign_vocab_base, rng.randint(1, 4))
        plain = [f for f in files if not any(c in f for c in "*?[]")]  # gitignore metacharacters would not be literal
        if rng.random() < 0.5 and plain:
            f = rng.choice(plain)
            rel = f[len("t/") :]
            if "/" in rel:
                rules.append(rng.choice([rel, "/" + rel]))
            else:
                rules.append("/" + rel)
        if rng.random() < 0.3 and len(dirs) > 1:
            d = rng.choice(dirs[1:])[len("t/") :]
            rules.append(d + "/" if "/" in d else "/" + d + "/")
        if rng.random() < 0.2:
            # (file-name negations only: re-including a *directory* below which other rules apply is
            # where pathspec and git disagree - that is C18's business, not C17's)
            rules += rng.choice([["*.md", "!README.md"], ["README*", "!README.md"], ["a.*", "!a.md"], ["notes.md", "!notes.md", "notes.md"]])
        if rng.random() < 0.15:
            rules.append(rng.choice(["**/draft.md", "**/archive/", "**/notes.md", "**/*.txt"]))
        if rng.random() < 0.12 and len(dirs) > 1:
            d = rng.choice(dirs[1:])[len("t/") :]
            if not any(c in d for c in "*?[]!"):
                rules.append(d + "/**")
        where = rng.choices(["t", "", "sub"], [70, 15, 15])[0]
        if where == "t":
            entries["t/.flowmarkignore"] = {"txt": "\n".join(rules) + "\n"}
        elif where == "":
            # ancestor of the tree root: rules there are relative to the scratch dir
            entries[".flowmarkignore"] = {"txt": "\n".join(r for r in rules if "/" not in r.rstrip("/")) + "\n"}
        else:
            d = rng.choice(dirs)
            entries[d + "/.flowmarkignore"] = {"txt": "\n".join(r for r in rules if "/" not in r.rstrip("/")) + "\n"}
    if rng.random() < 0.35:
        for _ in range(rng.randint(1, 2)):
            d = rng.choice(dirs)
            rules = rng.sample(["draft.md", "*.mdx", "notes*", "archive/", "x/", "b.md", "# c", "sub/", "index.md"], rng.randint(1, 3))
            entries[d + "/.gitignore"] = {"txt": "\n".join(rules) + "\n"}
    # a second tool ignore file in another directory (sibling sub-trees with different rules)
    if len(dirs) > 2 and rng.random() < 0.25:
        d = rng.choice(dirs[1:])
        if d + "/.flowmarkignore" not in entries:
            rules = rng.sample(["a.md", "b.md", "README*", "*.mdx", "index.*", "notes.md", "big.md", "x/", "sub/"], rng.randint(1, 3))
            entries[d + "/.flowmarkignore"] = {"txt": "\n".join(rules) + "\n"}
    # the same rules in other clothes: CRLF line ends, trailing blanks after a rule, a file that
    # is not UTF-8 (no rules at all then), a file with comments and blank lines only
    v = random.Random(rng.getrandbits(32))
    for path in [k for k in entries if k.endswith(".flowmarkignore") and "txt" in entries[k]]:
        r = v.random()
        txt = entries[path]["txt"]
        if r < 0.10:
            entries[path] = {"txt": txt.replace("\n", "\r\n")}
        elif r < 0.18:
            entries[path] = {"txt": "\n".join(ln + ("  " if ln and not ln.startswith("#") and i % 2 == 0 else "") for i, ln in enumerate(txt.split("\n")))}
        elif r < 0.22:
            entries[path] = {"txt": txt, "enc": "latin-1", "prefix": "# caf\u00e9\n"}
        elif r < 0.26:
            entries[path] = {"txt": "# nothing here\n\n   \n# " + txt.replace("\n", " ") + "\n"}
    # an ignore file may itself be a symlink to a shared file kept elsewhere; its rules are still
    # relative to the directory in which the link sits
    for path in [k for k in entries if k.endswith(".flowmarkignore") and "txt" in entries[k]]:
        if rng.random() < 0.12:
            n = sum(1 for k in entries if k.startswith("outside/ign"))
            store = f"outside/ign{n}.txt"
            entries[store] = dict(entries[path])
            depth = path.count("/")
            entries[path] = {"l": "../" * depth + store}
    return {"entries": entries, "limit": limit}


def gen_settings(rng: random.Random, limit: int, entries: dict[str, Any] | None = None) -> dict[str, Any]:
    s = _gen_settings(rng, limit)
    # a user exclude pattern naming a directory by its path from the project root
    # ("docs/drafts/", "/docs/"): anchored, gitignore style
    a = random.Random(rng.getrandbits(32))
    dirs = [p[len("t/") :] for p, e in (entries or {}).items() if "d" in e and p.startswith("t/") and not any(c in p for c in "*?[]!")]
    negs = any(p_.startswith("!") for k_ in ("exclude", "extend_exclude") for p_ in (s[k_] or []))
    if dirs and a.random() < 0.15 and not negs:
        # (never together with negations: what "!name/" re-includes below an anchored pattern is
        # where pathspec and git differ - C18's business)
        d = a.choice(dirs)
        pat = (d + "/") if "/" in d else ("/" + d + "/")
        key = a.choice(["extend_exclude", "extend_exclude", "exclude"])
        cur = s[key]
        s[key] = (list(cur) if cur else []) + [pat]
        if entries is not None and a.random() < 0.6:
            # a directory of the same *name* elsewhere: not what the anchored pattern means
            parent = a.choice(["t"] + ["t/" + x for x in dirs if x != d and not x.startswith(d + "/")])
            twin = parent + "/" + os.path.basename(d)
            if twin != "t/" + d and twin not in entries and parent.count("/") < 5:
                entries[twin] = {"d": 1}
                entries[twin + "/twin.md"] = {"f": 3}
    return s


def _gen_settings(rng: random.Random, limit: int) -> dict[str, Any]:
    s: dict[str, Any] = {
        "extend_include": rng.choice([[], [], [], ["*.mdx"], ["*.txt"], ["notes*"], ["*.mdx", "*.markdown"], ["!CHANGELOG.md"], ["*.mdx", "!draft.*"], ["!README*", "README.md"], ["*.txt", "!a.*"]]),
        "exclude": rng.choice([None, None, None, None, [], ["drafts/"], ["docs/", "x/"], ["vendor/", "dist/", "!vendor/"]]),
        # (a "!pattern" re-includes what an earlier pattern - also a default one - excluded)
        "extend_exclude": rng.choice([[], [], [], ["drafts/"], ["archive/", "sub/"], ["a*/"], ["guide/"], ["!build/"], ["!node_modules/", "!.git/"], ["drafts/", "!drafts/"], ["sub/", "!s*/"]]),
        "respect_gitignore": rng.random() < 0.7,
        "force_exclude": rng.random() < 0.3,
        "files_max_size": limit,
    }
    return s


def gen_args(rng: random.Random, entries: dict[str, Any]) -> list[str]:
    """Arguments relative to the tree root t/ (the cwd)."""
    dirs = [p[len("t/") :] for p, e in entries.items() if "d" in e and p.startswith("t/")]
    files = [
        p[len("t/") :]
        for p, e in entries.items()
        if ("f" in e or "hl" in e or ("l" in e and not e["l"].startswith("nowhere"))) and p.startswith("t/")
    ]
    # directory arguments that are not themselves excluded-named / inside excluded dirs
    ok_dirs = [d for d in dirs if not any(c in DEFAULT_EXCLUDED_NAMES or c.endswith(".egg-info") for c in d.split("/"))]
    args: list[str] = []
    for _ in range(rng.choice([1, 1, 2, 2, 3, 4])):
        k = rng.choices(["dir", "file", "glob"], [45, 30, 25])[0]
        if k == "dir":
            d = rng.choice(["."] + ok_dirs + ["."])
            if d != "." and rng.random() < 0.2:
                d = "./" + d
            elif d != "." and rng.random() < 0.15:
                d = d + "/"  # trailing slash
            elif rng.random() < 0.1:
                d = "ABS:" + ("" if d == "." else d)  # absolute path (substituted at run time)
            args.append(d)
        elif k == "file" and files:
            f = rng.choice(files)
            if any(c in f for c in "*?["):
                continue  # would be taken for a glob pattern
            if rng.random() < 0.08:
                f = "ABS:" + f
            elif rng.random() < 0.15:
                f = "./" + f
            elif rng.random() < 0.1 and "/" in f:
                d_ = os.path.dirname(f)
                f = d_ + "/../" + os.path.basename(d_) + "/" + os.path.basename(f)
            args.append(f)
        else:
            base = rng.choice([""] + [d + "/" for d in ok_dirs if not any(c in d for c in "*?[")])
            args.append(base + rng.choice(["*.md", "**/*.md", "*/*.md", "*.m*", "**/*"]))
    if rng.random() < 0.06:
        args.append(rng.choice(["../outside", "../outside/deep", "../outside/secret.md", "../outside/**/*.md"]))  # leaves the cwd
    if rng.random() < 0.05:
        args.append("ABS:" + rng.choice(["*.md", "**/*.md"]))  # glob with an absolute prefix
    args = args[-5:]
    if not args:
        args = ["."]
    # overlapping arguments: a directory together with one of its sub-directories (either order)
    if rng.random() < 0.2:
        nested = [d for d in ok_dirs if "/" in d or True]
        if nested:
            inner = rng.choice(nested)
            outer = os.path.dirname(inner) or "."
            pair = [outer, inner]
            rng.shuffle(pair)
            args = (args + pair)[-4:]
    return args


# ---------------------------------------------------------------------------------------------
# reference walk over the real (un-permuted) scratch area


class Ref:
    def __init__(self, scratch: str, settings: dict[str, Any]) -> None:
        self.scratch = os.path.realpath(scratch)
        self.root = os.path.join(self.scratch, "t")
        self.s = settings
        inc = ["*.md"] + list(settings["extend_include"])
        self.include = inc
        base = DEFAULT_EXCLUDE_PATTERNS if settings["exclude"] is None else list(settings["exclude"])
        self.exclude_rules = basename_rules(base + list(settings["extend_exclude"]))
        self._ign_cache: dict[str, list[dict[str, Any]] | None] = {}

    # -- primitives ---------------------------------------------------------------------

    def dir_excluded(self, name: str, rel: str | None = None) -> bool:
        """exclude + extend_exclude form one gitignore-style list: the last matching pattern wins.
        `rel`: path of the directory relative to the anchor of slash-containing patterns (None:
        such patterns are not considered)."""
        last = None
        for r in self.exclude_rules:
            if r["anchored"]:
                if rel is not None and rule_matches(r, rel, True):
                    last = r
            elif rule_matches(r, name, True):
                last = r
        return last is not None and not last.get("neg")

    def included(self, name: str) -> bool:
        # include patterns are one gitignore-style list: last match wins, "!pat" drops a name again
        res = False
        for p in self.include:
            if p.startswith("!"):
                if fnmatch.fnmatchcase(name, p[1:]):
                    res = False
            elif fnmatch.fnmatchcase(name, p):
                res = True
        return res

    def too_big(self, path: str) -> bool:
        lim = self.s["files_max_size"]
        if not lim:
            return False
        try:
            return os.stat(path).st_size > lim
        except OSError:
            return False

    def read_rules(self, path: str) -> list[dict[str, Any]] | None:
        if path not in self._ign_cache:
            try:
                with open(path, encoding="utf-8") as f:
                    lines = f.read().splitlines()
                self._ign_cache[path] = [r for r in (parse_rule(ln) for ln in lines) if r is not None]
            except (OSError, UnicodeDecodeError):
                self._ign_cache[path] = None  # unreadable / not UTF-8: no rules
        return self._ign_cache[path]

    def closest_toolignore(self, start: str) -> tuple[str, list[dict[str, Any]]] | None:
        d = start
        while True:
            p = os.path.join(d, ".flowmarkignore")
            if os.path.isfile(p):
                return d, (self.read_rules(p) or [])
            nd = os.path.dirname(d)
            if nd == d:
                return None
            d = nd

    def other_toolignores(self, start: str, file_path: str) -> list[tuple[str, list[dict[str, Any]]]]:
        """All .flowmarkignore files on the way from / to the file's directory except the closest-at-or-above-start."""
        out = []
        closest = self.closest_toolignore(start)
        d = os.path.dirname(file_path)
        while True:
            p = os.path.join(d, ".flowmarkignore")
            if os.path.isfile(p) and not (closest and closest[0] == d):
                out.append((d, self.read_rules(p) or []))
            nd = os.path.dirname(d)
            if nd == d:
                break
            d = nd
        return out

    # -- classification of one real file reached under a walk/glob base -------------------

    def judge(self, path: str, base: str, via_glob_literal_prefix: str | None = None) -> tuple[str, str]:
        """
        path: real file (no symlink component below base). base: walk root / glob base dir.
        Returns (class, reason) with class in MUST / MAY / NO.
        """
        name = os.path.basename(path)
        if not self.included(name):
            return "NO", "include"
        if self.too_big(path):
            return "NO", "size"
        rel = os.path.relpath(path, base)
        dparts = rel.split("/")[:-1]
        may_reason = None
        # excluded directories between base and the file. A pattern with a slash in the middle
        # ("docs/drafts/") is anchored: relative to the walk root as implemented, relative to
        # the project directory (cwd) as a user would expect - identical when the walk root is
        # the cwd; where the two readings differ the statement is silent (MAY)
        base_rel_cwd = os.path.relpath(base, self.root)
        for i, comp in enumerate(dparts):
            rel_base = "/".join(dparts[: i + 1])
            v1 = self.dir_excluded(comp, rel_base)
            if base_rel_cwd == ".":
                v2 = v1
            elif base_rel_cwd.startswith(".."):
                v2 = self.dir_excluded(comp, None)
            else:
                v2 = self.dir_excluded(comp, base_rel_cwd + "/" + rel_base)
            if v1 and v2:
                return "NO", "excluded-dir" if self.dir_excluded(comp, None) else "excluded-dir-path"
            if v1 or v2:
                may_reason = "anchored exclude pattern: walk root is not the cwd"
                break
        # the closest tool ignore file at or above base
        ci = self.closest_toolignore(base)
        if ci is not None:
            idir, rules = ci
            relr = os.path.relpath(path, idir)
            depth0 = len(os.path.relpath(base, idir).split("/")) if os.path.realpath(base) != os.path.realpath(idir) else 0
            # components above the base are the caller's explicit choice -> not judged (MAY)
            hit_above = any_component_matches(rules, "/".join(relr.split("/")[:depth0]), True) if depth0 else None
            hit = any_component_matches(rules, relr, False, from_depth=depth0)
            if hit is not None:
                return "NO", "flowmarkignore-path-rule" if hit["anchored"] else "flowmarkignore"
            if hit_above is not None:
                may_reason = "base inside a .flowmarkignore'd directory"
        for idir, rules in self.other_toolignores(base, path):
            relr = os.path.relpath(path, idir)
            if not relr.startswith("..") and any_component_matches(rules, relr, False) is not None:
                may_reason = may_reason or "matched only by a non-applicable (nested / farther) .flowmarkignore"
        # gitignore files
        if self.s["respect_gitignore"]:
            d = os.path.dirname(path)
            while True:
                g = os.path.join(d, ".gitignore")
                if os.path.isfile(g):
                    rules = [r for r in (self.read_rules(g) or []) if not r["anchored"]]
                    relr = os.path.relpath(path, d)
                    if any_component_matches(rules, relr, False) is not None:
                        inside_walk = os.path.realpath(d).startswith(os.path.realpath(base))
                        if inside_walk and via_glob_literal_prefix is None:
                            return "NO", "gitignore"
                        may_reason = may_reason or "gitignore above the walk root / gitignore on a glob result"
                if os.path.realpath(d) == "/" or d == os.path.dirname(d):
                    break
                d = os.path.dirname(d)
        if may_reason:
            return "MAY", may_reason
        return "MUST", "passes all filters"

    # -- per-argument expectations -------------------------------------------------------

    def real_files_under(self, base: str) -> list[str]:
        """Regular files reachable from base without passing through any symlink."""
        out: list[str] = []
        stack = [base]
        while stack:
            d = stack.pop()
            try:
                names = sorted(os.listdir(d))
            except OSError:
                continue
            for n in names:
                p = os.path.join(d, n)
                if os.path.islink(p):
                    continue
                if os.path.isdir(p):
                    stack.append(p)
                elif os.path.isfile(p):
                    out.append(p)
        return out

    def expect(self, args: list[str]) -> dict[str, tuple[str, str, str]]:
        """resolved path -> (class, reason, argkind); MUST beats MAY beats NO."""
        rank = {"MUST": 2, "MAY": 1, "NO": 0}
        out: dict[str, tuple[str, str, str]] = {}

        def put(p: str, cls: str, reason: str, kind: str) -> None:
            rp = os.path.realpath(p)
            cur = out.get(rp)
            if cur is None or rank[cls] > rank[cur[0]] or (cls == "NO" and cur[0] == "NO" and reason in ("symlink-file", "symlink-dangling") and cur[1] not in ("symlink-file", "symlink-dangling")):
                out[rp] = (cls, reason, kind)

        for a in args:
            if a.startswith("ABS:"):
                a = os.path.join(self.root, a[4:]) if a[4:] else self.root
            full = os.path.normpath(os.path.join(self.root, a))
            if os.path.isfile(full):
                self._explicit(a, full, put)
            elif os.path.isdir(full):
                base = full
                base_real = os.path.realpath(base)
                for p in self.real_files_under(base_real):
                    cls, reason = self.judge(p, base_real)
                    put(p, cls, reason, "dir")
                self._links_under(base_real, put, "dir")
                for dp, dns, fns in os.walk(base_real):
                    for fn in fns:
                        sp = os.path.join(dp, fn)
                        if not os.path.islink(sp) and not os.path.isfile(sp):
                            put(sp, "NO", "not-a-regular-file", "dir")
            elif any(c in a for c in "*?["):
                self._glob(a, put)
        return out

    def _explicit(self, arg: str, full: str, put: Any) -> None:
        if self.too_big(full):
            put(full, "NO", "size", "explicit")
            return
        name = os.path.basename(arg)
        cls, reason = "MUST", "explicit"
        if not self.included(name) and not self.included(os.path.basename(os.path.realpath(full))):
            cls, reason = "MAY", "explicit file not matching an include pattern"
        if self.s["force_exclude"]:
            parts = [c for c in arg.split("/") if c not in (".", "")]
            if ".." in parts:
                cls, reason = "MAY", "force-exclude with .. in the path"
            else:
                for comp in parts[:-1]:
                    if self.dir_excluded(comp):
                        put(full, "NO", "force-exclude-excluded-dir", "explicit")
                        return
                relc = os.path.relpath(os.path.dirname(os.path.join(self.root, arg)), self.root).split("/")
                if any(self.dir_excluded(relc[i], "/".join(relc[: i + 1])) for i in range(len(relc)) if relc[i] not in (".", "..")):
                    cls, reason = "MAY", "force-exclude and an anchored exclude pattern (statement silent on the anchor)"
                ci = self.closest_toolignore(os.path.dirname(full))
                if ci is not None:
                    idir, rules = ci
                    relr = os.path.relpath(full, idir)
                    if not relr.startswith("..") and any_component_matches(rules, relr, False) is not None:
                        if any(r.get("neg") for r in rules):
                            # without directory pruning, "dir/ then !file" is where pathspec and git differ
                            cls, reason = "MAY", "force-exclude with negation rules in .flowmarkignore"
                        else:
                            put(full, "NO", "force-exclude-flowmarkignore", "explicit")
                            return
                if self.s["respect_gitignore"]:
                    d = os.path.dirname(full)
                    while True:
                        g = os.path.join(d, ".gitignore")
                        if os.path.isfile(g):
                            rules = [r for r in (self.read_rules(g) or []) if not r["anchored"]]
                            relr = os.path.relpath(full, d)
                            if any_component_matches(rules, relr, False) is not None:
                                cls, reason = "MAY", "force-exclude and gitignore (statement silent)"
                        if d == os.path.dirname(d):
                            break
                        d = os.path.dirname(d)
                if os.path.islink(full) or os.path.realpath(full) != full:
                    cls, reason = ("MAY", "force-exclude on a path with symlinks") if cls == "MUST" else (cls, reason)
        put(full, cls, reason, "explicit")

    def _links_under(self, base: str, put: Any, kind: str) -> None:
        """Files only reachable through a symlink during traversal: forbidden (unless also reachable really)."""
        stack = [base]
        while stack:
            d = stack.pop()
            try:
                names = sorted(os.listdir(d))
            except OSError:
                continue
            for n in names:
                p = os.path.join(d, n)
                if os.path.islink(p):
                    if os.path.isfile(p):
                        put(p, "NO", "symlink-file", kind)
                    elif not os.path.exists(p):
                        put(p, "NO", "symlink-dangling", kind)
                    elif os.path.isdir(p):
                        tgt = os.path.realpath(p)
                        seen = 0
                        for dp, dns, fns in os.walk(tgt):
                            for fn in fns:
                                if not os.path.islink(os.path.join(dp, fn)):
                                    put(os.path.join(dp, fn), "NO", "symlink-dir", kind)
                                seen += 1
                            if seen > 200:
                                break
                elif os.path.isdir(p):
                    stack.append(p)

    def _glob(self, pattern: str, put: Any) -> None:
        if pattern.startswith("/"):
            pattern = os.path.relpath(pattern, self.root) if not any(c in os.path.dirname(pattern) for c in "*?[") else pattern
            if pattern.startswith("/"):
                # wildcard inside an absolute prefix: split at the first wildcard component
                comps = pattern.split("/")
                k = next(i for i, c in enumerate(comps) if any(ch in c for ch in "*?["))
                pattern = os.path.relpath("/".join(comps[:k]) or "/", self.root) + "/" + "/".join(comps[k:])
        parts = pattern.split("/")
        lit: list[str] = []
        for comp in parts:
            if any(c in comp for c in "*?["):
                break
            lit.append(comp)
        gparts = parts[len(lit) :]
        base = os.path.normpath(os.path.join(self.root, *lit)) if lit else self.root
        if not os.path.isdir(base):
            return
        base_real = os.path.realpath(base)
        # candidates: every file below base (through real dirs: MUST-able; through links: MAY)
        for p in self.real_files_under(base_real):
            rel = os.path.relpath(p, base_real)
            if not glob_match(gparts, rel.split("/")):
                continue
            cls, reason = self.judge(p, base_real, via_glob_literal_prefix="/".join(lit))
            put(p, cls, reason, "glob")
        # anything reached through a symlink component by a glob: MAY (pathlib's business)
        for dp, dns, fns in os.walk(base_real, followlinks=True):
            if dp.count(os.sep) - base_real.count(os.sep) > 8:
                dns[:] = []
                continue
            for fn in fns + [d for d in dns if os.path.islink(os.path.join(dp, d))]:
                p = os.path.join(dp, fn)
                rel = os.path.relpath(p, base_real)
                if os.path.isfile(p) and (os.path.islink(p) or os.path.realpath(dp) != dp or _has_link_component(base_real, rel)):
                    if glob_match(gparts, rel.split("/")):
                        put(p, "MAY", "glob result reached through a symlink", "glob")


def _has_link_component(base: str, rel: str) -> bool:
    cur = base
    for comp in rel.split("/"):
        cur = os.path.join(cur, comp)
        if os.path.islink(cur):
            return True
    return False


def glob_match(gparts: list[str], parts: list[str]) -> bool:
    """pathlib-style matching of path components against pattern components with ** support."""
    if not gparts:
        return not parts
    g = gparts[0]
    if g == "**":
        if len(gparts) == 1:
            # pathlib: a trailing ** matches directories only
            return False
        for i in range(len(parts)):
            if glob_match(gparts[1:], parts[i:]):
                return True
        return False
    if not parts:
        return False
    if fnmatch.fnmatchcase(parts[0], g):
        return glob_match(gparts[1:], parts[1:])
    return False
