"""
C17 - file discovery returns exactly the wanted files, deterministically. Engine B.

A run = one seeded scratch area (tree + outside area + ignore files) x settings x arguments,
resolved under K schedules: every scandir/listdir result is permuted by the PRNG (fresh
permutation per call) and the argument order is permuted; both `FileResolver.resolve` and
`main(["--list-files", ...])` are exercised. Oracle: an independent reference walk (dst/c17model.py)
classifies every file as MUST / MAY / forbidden; result must be absolute, sorted, duplicate-free,
contain every MUST, nothing forbidden, and be identical under all schedules.
"""

from __future__ import annotations

import json
import os
import random
import shutil
import tempfile
from typing import Any

from . import c17model, simproc
from .core import ddmin, digest, sub_rng

CHECK = "C17"
CHUNK = 16
TIERS = {"quick": 4000, "thorough": 60000}
WALL_CAP = {"quick": 420.0, "thorough": 3000.0}
DET_SAMPLE = {"quick": 64, "thorough": 800}
SAMPLE_EVERY = 997
SET_KEYS = ("triples", "filters_hit")
RULE = (
    "evaluation = one resolve (FileResolver.resolve or `--list-files`) of one (tree, settings, arguments) case under one seeded "
    "listing-order/argument-order schedule; distinct_nontrivial = distinct (tree digest, settings, arguments) cases in which the "
    "rules were non-trivial (at least one file listed AND at least one file filtered out) and at least one directory listing was "
    "actually permuted relative to the native order."
)
ASSUMPTIONS = [
    "rule vocabulary restricted to forms with unambiguous gitignore meaning (name, name/, *.ext, pre*, anchored a/b and /a only in .flowmarkignore); .gitignore files hold slash-free patterns only, no negation",
    "MAY (don't-care) classes: files matched only by a non-applicable .flowmarkignore (nested below the walk root or farther up than the closest one), glob results reached through a symlink, gitignore matches on glob results or from above the walk root, explicit files not matching an include pattern, force-exclude x gitignore",
    "tmpfs stands for the file system; listing order is permuted at os.scandir/os.listdir (picked up by os.walk and pathlib.glob on CPython 3.12)",
]
COMPONENTS = {
    "real": ["flowmark.file_resolver (FileResolver, gitignore loading, defaults)", "flowmark.cli --list-files path", "pathspec", "os.walk / pathlib.Path.glob", "tmpfs"],
    "stub": ["os.scandir / os.listdir order (seeded permutation per call)", "stdout pipe"],
}
SCRATCH_BASE = "/dev/shm" if os.path.isdir("/dev/shm") and os.access("/dev/shm", os.W_OK) else tempfile.gettempdir()


def gen_case(run_seed: int, tier: str) -> dict[str, Any]:
    w = sub_rng(run_seed, "workload")
    tree = c17model.gen_tree(w)
    settings = c17model.gen_settings(w, tree["limit"], tree["entries"])
    args = c17model.gen_args(w, tree["entries"])
    k = sub_rng(run_seed, "knobs")
    K = 4 if tier == "quick" else 8
    scheds = []
    for i in range(K):
        perm = list(range(len(args)))
        if i:
            k.shuffle(perm)
        scheds.append({"list_seed": k.getrandbits(32), "listing": "native" if i == 0 else k.choice(["shuffle", "shuffle", "reverse", "sorted"]), "arg_perm": perm, "via": ("api", "cli", "cfg")[i % 3]})
    # sometimes the whole project lives under a directory whose name is default-excluded
    # (components above the arguments are the caller's business and must not be judged)
    under = sub_rng(run_seed, "under").choice([None] * 6 + ["build", "dist", "node_modules", "venv"])
    return {"check": CHECK, "run_seed": run_seed, "tier": tier, "entries": tree["entries"], "settings": settings, "args": args, "schedules": scheds, "under": under}


class Env:
    def __init__(self) -> None:
        self.run: Any = None

    def setup(self) -> None:
        from . import check_c14

        check_c14.Env().setup()

    def close(self) -> None:
        pass

    def info(self) -> dict[str, Any]:
        return {"scratch_base": SCRATCH_BASE}


def build(scratch: str, entries: dict[str, Any]) -> None:
    for rel in sorted(entries, key=lambda r: (r.count("/"), r)):
        ent = entries[rel]
        full = os.path.join(scratch, rel)
        if "d" in ent:
            os.makedirs(full, exist_ok=True)
    for rel in sorted(entries, key=lambda r: (r.count("/"), r)):
        ent = entries[rel]
        full = os.path.join(scratch, rel)
        os.makedirs(os.path.dirname(full), exist_ok=True)
        if "f" in ent:
            with open(full, "wb") as f:
                f.write(b"x" * int(ent["f"]))
        elif "txt" in ent:
            with open(full, "wb") as f:
                f.write((ent.get("prefix", "") + ent["txt"]).encode(ent.get("enc", "utf-8"), "replace"))
        elif "l" in ent:
            os.symlink(ent["l"], full)
        elif "fifo" in ent:
            os.mkfifo(full)
    for rel in sorted(entries):
        ent = entries[rel]
        if "hl" in ent:
            full = os.path.join(scratch, rel)
            os.makedirs(os.path.dirname(full), exist_ok=True)
            try:
                os.link(os.path.join(scratch, ent["hl"]), full)
            except OSError:
                pass


def cli_flags(s: dict[str, Any]) -> list[str] | None:
    a: list[str] = []
    for p in s["extend_include"]:
        a += ["--extend-include", p]
    if s["exclude"] is not None:
        if not s["exclude"]:
            return None  # "replace the defaults with nothing" cannot be said on the command line
        for p in s["exclude"]:
            a += ["--exclude", p]
    for p in s["extend_exclude"]:
        a += ["--extend-exclude", p]
    if not s["respect_gitignore"]:
        a.append("--no-respect-gitignore")
    if s["force_exclude"]:
        a.append("--force-exclude")
    a += ["--files-max-size", str(s["files_max_size"])]
    return a


def resolve_once(scratch: str, case: dict[str, Any], sch: dict[str, Any]) -> tuple[list[str] | None, str | None, simproc.Interposer, str]:
    args = [case["args"][i] for i in sch["arg_perm"] if i < len(case["args"])]
    troot = os.path.join(scratch, "t")
    args = [(os.path.join(troot, a[4:]) if a[4:] else troot) if a.startswith("ABS:") else a for a in args]
    s = case["settings"]
    ip = simproc.Interposer(scratch, [], {"listing": sch["listing"], "list_seed": sch["list_seed"]})
    box: dict[str, Any] = {}
    via = sch["via"]
    flags = cli_flags(s) if via == "cli" else None
    if via == "cli" and flags is None:
        via = "api"
    cfg_path = None
    if via == "cfg":
        # the same settings given in the project's config file instead of on the command line
        if any(os.path.lexists(os.path.join(troot, n)) for n in (".flowmark.toml", "flowmark.toml", "pyproject.toml")):
            via = "api"
        else:
            def tl(xs: list[str]) -> str:
                return "[" + ", ".join(json.dumps(x) for x in xs) + "]"

            k2 = random.Random(sch["list_seed"])
            lines = []
            if s["extend_include"]:
                lines.append(f"extend-include = {tl(s['extend_include'])}")
            if s["exclude"] is not None:
                lines.append(f"exclude = {tl(s['exclude'])}")
            if s["extend_exclude"]:
                lines.append(f"{k2.choice(['extend-exclude', 'extend_exclude'])} = {tl(s['extend_exclude'])}")
            lines.append(f"files-max-size = {int(s['files_max_size'])}")
            lines.append(f"respect-gitignore = {'true' if s['respect_gitignore'] else 'false'}")
            lines.append(f"force-exclude = {'true' if s['force_exclude'] else 'false'}")
            k2.shuffle(lines)
            body = "\n".join(lines) + "\n"
            name = k2.choice([".flowmark.toml", "flowmark.toml", "pyproject.toml"])
            if name == "pyproject.toml":
                body = "[tool.flowmark]\n" + body
            elif k2.random() < 0.3:
                body = "[file-discovery]\n" + body
            cfg_path = os.path.join(troot, name)
            with open(cfg_path, "w", encoding="utf-8") as f:
                f.write(body)
            flags = []

    if via == "api":

        def fn() -> int:
            from flowmark.file_resolver import FileResolver, FileResolverConfig

            cfg = FileResolverConfig(extend_include=list(s["extend_include"]), exclude=None if s["exclude"] is None else list(s["exclude"]), extend_exclude=list(s["extend_exclude"]), respect_gitignore=s["respect_gitignore"], force_exclude=s["force_exclude"], files_max_size=s["files_max_size"])
            box["result"] = FileResolver(cfg).resolve(args)
            return 0

    else:
        assert flags is not None
        argv = ["--list-files"] + flags + args

        def fn() -> int:
            from flowmark.cli import main

            return main(argv)

    try:
        res = simproc.run_process(ip, fn, b"", cwd=os.path.join(scratch, "t"))
    finally:
        if cfg_path is not None:
            os.unlink(cfg_path)
    if res.exit != 0:
        return None, f"exit={res.exit} exc={res.exc} stderr={res.stderr[-200:].decode('utf-8', 'replace')}", ip, via
    if via == "api":
        paths = box["result"]
        out = []
        from pathlib import Path

        box["sorted_ok"] = all(paths[i] < paths[i + 1] for i in range(len(paths) - 1))
        box["abs_ok"] = all(isinstance(p, Path) and p.is_absolute() for p in paths)
        out = [str(p) for p in paths]
        return out, None if (box["abs_ok"]) else "not-absolute", ip, via
    lines = res.stdout.decode("utf-8", "surrogateescape").split("\n")
    if lines and lines[-1] == "":
        lines.pop()
    return lines, None, ip, via


def run_case(env: Env, case: dict[str, Any], want_trace: bool = False) -> dict[str, Any]:
    outer = tempfile.mkdtemp(prefix="dst-c17-" + os.environ.get("VERIF_RUN_TAG", "x") + "-", dir=SCRATCH_BASE)
    scratch = os.path.join(outer, "s", "s")  # nested, so that a defective `..` resolution under test stays inside the scratch directory
    try:
        os.makedirs(scratch)
        return _run_case(case, scratch, want_trace)
    finally:
        shutil.rmtree(outer, ignore_errors=True)


def _path_key(p: str) -> tuple[str, ...]:
    return tuple(p.split("/"))


def _run_case(case: dict[str, Any], scratch: str, want_trace: bool) -> dict[str, Any]:
    scratch = os.path.realpath(scratch)
    if case.get("under"):
        scratch = os.path.join(scratch, case["under"])
        os.makedirs(scratch)
    build(scratch, case["entries"])
    ref = c17model.Ref(scratch, case["settings"])
    args = list(case["args"])
    expect = ref.expect(args)
    must = {p for p, (c, _, _) in expect.items() if c == "MUST"}
    may = {p for p, (c, _, _) in expect.items() if c == "MAY"}
    violations: list[dict[str, Any]] = []
    seen_fp: set[str] = set()
    counters: dict[str, Any] = {"cases": 1, "resolves": 0, "via": {}, "listings": 0, "listings_permuted": 0, "fs_ops": 0, "exceptions": 0}
    filters_hit: set[str] = set()
    triples: set[str] = set()
    results: list[list[str] | None] = []
    sch0 = case["schedules"][0]

    def rel(paths: list[str] | None) -> list[str] | None:
        return None if paths is None else [os.path.relpath(p, scratch) if os.path.isabs(p) else "REL:" + p for p in paths]

    def viol(fp: str, detail: dict[str, Any], sch: dict[str, Any], only_args: list[str] | None = None) -> None:
        if fp not in seen_fp:
            seen_fp.add(fp)
            c = dict(case, schedules=[sch0] if sch is sch0 else [sch0, sch])
            if only_args is not None:
                c = dict(c, args=only_args, schedules=[dict(sch0, arg_perm=list(range(len(only_args))))])
            violations.append({"fingerprint": fp, "detail": detail, "case": c})

    anchored_basenames = []
    for relp, ent in case["entries"].items():
        if relp.endswith(".flowmarkignore") and "txt" in ent:
            for ln in ent["txt"].splitlines():
                r = c17model.parse_rule(ln)
                if r and r["anchored"]:
                    anchored_basenames.append(os.path.basename(r["pat"]))

    def account(ip: simproc.Interposer, via: str) -> None:
        counters["resolves"] += 1
        counters["via"][via] = counters["via"].get(via, 0) + 1
        counters["listings"] += ip.perm_total
        counters["listings_permuted"] += ip.perm_changed
        counters["fs_ops"] += len(ip.log)

    def shape_checks(out: list[str], err: str | None, sch: dict[str, Any], only: list[str] | None = None) -> None:
        if err == "not-absolute" or any(not os.path.isabs(p) for p in out):
            viol("C17/not-absolute", {"result": rel(out)[:10]}, sch, only)  # type: ignore[index]
        if len(set(os.path.realpath(p) for p in out)) != len(out):
            viol("C17/duplicate", {"result": rel(out)[:20]}, sch, only)  # type: ignore[index]
        if out != sorted(out) and out != sorted(out, key=_path_key):
            viol("C17/unsorted", {"result": rel(out)[:20]}, sch, only)  # type: ignore[index]

    # ---- a resolve with *other* settings first (result discarded): the case's own resolves
    # must not see anything it left behind in the process (a cache keyed by path only ...)
    if sub_rng(case["run_seed"], "warmup").random() < 0.3:
        s0 = case["settings"]
        other = dict(s0, extend_include=["*.txt", "*.mdx"], exclude=[], extend_exclude=[], respect_gitignore=not s0["respect_gitignore"], force_exclude=not s0["force_exclude"], files_max_size=0)
        _o, _e, ip_w, via_w = resolve_once(scratch, dict(case, settings=other, args=["."]), dict(sch0, arg_perm=[0], via="api"))
        account(ip_w, via_w)
        counters["warmups"] = 1

    # ---- each argument alone, native order: filter semantics against the reference walk
    solo_union: set[str] = set()
    solo_ok = True
    for a in dict.fromkeys(args):
        solo_case = dict(case, args=[a])
        out, err, ip, via = resolve_once(scratch, solo_case, dict(sch0, arg_perm=[0], via="api"))
        account(ip, via)
        if out is None:
            counters["exceptions"] += 1
            solo_ok = False
            viol(f"C17/resolve-failed/{via}", {"error": err, "args": [a]}, sch0, [a])
            continue
        shape_checks(out, err, sch0, [a])
        exp_a = ref.expect([a])
        got = {os.path.realpath(p) for p in out}
        solo_union |= got
        must_a = {p for p, (c, _, _) in exp_a.items() if c == "MUST"}
        may_a = {p for p, (c, _, _) in exp_a.items() if c == "MAY"}
        for p in sorted(got - must_a - may_a):
            cls, reason, kind = exp_a.get(p, ("NO", "outside-the-argument", "?"))
            viol(f"C17/surplus/{kind}/{reason}", {"path": os.path.relpath(p, scratch), "reason": reason, "arg": a, "settings": case["settings"]}, sch0, [a])
        for p in sorted(must_a - got):
            _, reason, kind = exp_a[p]
            hint = "anchored-flowmarkignore-rule-matches-basename" if any(c17model.fnmatch.fnmatchcase(os.path.basename(p), b) for b in anchored_basenames) else "unexplained"
            if hint == "unexplained":
                # a directory on the way carries the *name* of an anchored user exclude pattern's last component
                anch = [os.path.basename(r["pat"]) for r in ref.exclude_rules if r["anchored"] and not r.get("neg")]
                comps = os.path.relpath(p, scratch).split("/")[1:-1]
                if any(c17model.fnmatch.fnmatchcase(c, b) for c in comps for b in anch):
                    hint = "anchored-exclude-pattern-matches-name"
            viol(f"C17/missed/{kind}/{hint}", {"path": os.path.relpath(p, scratch), "arg": a, "settings": case["settings"]}, sch0, [a])

    # ---- all arguments together under K listing-order / argument-order schedules
    for si, sch in enumerate(case["schedules"]):
        out, err, ip, via = resolve_once(scratch, case, sch)
        account(ip, via)
        results.append(rel(out))
        if out is None:
            counters["exceptions"] += 1
            viol(f"C17/resolve-failed/{via}", {"error": err, "args": args}, sch)
            continue
        shape_checks(out, err, sch)
        if si == 0:
            got = {os.path.realpath(p) for p in out}
            if solo_ok and got != solo_union:
                viol("C17/combined-differs-from-union-of-single-argument-results", {"only_combined": sorted(os.path.relpath(p, scratch) for p in got - solo_union)[:10], "only_single": sorted(os.path.relpath(p, scratch) for p in solo_union - got)[:10], "args": args}, sch)
        elif results[0] is not None and results[-1] != results[0]:
            viol("C17/order-dependent", {"first": results[0][:20], "this": (results[-1] or [])[:20], "schedule": sch, "args": args}, sch)

    # ---- history: an ignore file of the tree is deleted, then the same arguments again (same
    # process): the answer must be the one for the tree as it is now
    ign = [r for r, e in sorted(case["entries"].items()) if r.startswith("t/") and os.path.basename(r) in (".flowmarkignore", ".gitignore") and "txt" in e]
    if ign and not violations and sub_rng(case["run_seed"], "edit").random() < 0.5:
        victim = sub_rng(case["run_seed"], "edit2").choice(ign)
        os.unlink(os.path.join(scratch, victim))
        ref2 = c17model.Ref(scratch, case["settings"])
        exp2 = ref2.expect(args)
        out2, err2, ip2, via2 = resolve_once(scratch, case, dict(sch0, via="api"))
        account(ip2, via2)
        counters["ignore_file_edits"] = 1
        if out2 is not None:
            got2 = {os.path.realpath(p) for p in out2}
            must2 = {p for p, (c, _, _) in exp2.items() if c == "MUST"}
            may2 = {p for p, (c, _, _) in exp2.items() if c == "MAY"}
            for p in sorted(got2 - must2 - may2)[:1]:
                viol("C17/stale-after-ignore-file-removed/surplus", {"path": os.path.relpath(p, scratch), "removed": victim, "args": args}, sch0)
            for p in sorted(must2 - got2)[:1]:
                viol("C17/stale-after-ignore-file-removed/missed", {"path": os.path.relpath(p, scratch), "removed": victim, "args": args}, sch0)

    for p, (c, reason, kind) in expect.items():
        if c == "NO":
            filters_hit.add(f"{kind}:{reason}")
        elif c == "MAY":
            filters_hit.add(f"{kind}:MAY")
    n_listed = len(results[0]) if results and results[0] is not None else 0
    n_filtered = sum(1 for c, _, _ in expect.values() if c == "NO")
    nontrivial = n_listed > 0 and n_filtered > 0 and counters["listings_permuted"] > 0
    kinds = sorted({k for _, _, k in expect.values()})
    triples.add(digest([sorted(case["entries"]), case["settings"], sorted(case["args"])], 12))
    res: dict[str, Any] = {
        "verdict": "violation" if violations else "ok",
        "fingerprint": violations[0]["fingerprint"] if violations else "",
        "detail": violations[0]["detail"] if violations else {},
        "violations": violations,
        "digest": digest([results, sorted((os.path.relpath(p, scratch), v) for p, v in expect.items()), [v["fingerprint"] for v in violations]], 24),
        "nontrivial": nontrivial,
        "distinct_key": digest([sorted(case["entries"].items()), case["settings"], case["args"]], 16),
        "counters": {**counters, "listed": n_listed, "filtered": n_filtered, "may": len(may), "argkinds": {k: 1 for k in kinds}},
        "triples": sorted(triples),
        "filters_hit": sorted(filters_hit),
    }
    if want_trace:
        res["results"] = results
        res["expect"] = {os.path.relpath(p, scratch): list(v) for p, v in sorted(expect.items())}
    return res


def sample_of(case: dict[str, Any], res: dict[str, Any]) -> dict[str, Any]:
    return {"run_seed": case["run_seed"], "entries": case["entries"], "settings": case["settings"], "args": case["args"], "schedules": case["schedules"], "listed": res["counters"]["listed"], "filtered": res["counters"]["filtered"]}


def evidence_extras(counters: dict[str, Any], sets: dict[str, set[str]], runs: dict[int, dict[str, Any]]) -> dict[str, Any]:
    return {
        "evaluations": counters.get("resolves", 0),
        "cases": counters.get("cases", 0),
        "directory_listings": counters.get("listings", 0),
        "directory_listings_whose_order_differed_from_native": counters.get("listings_permuted", 0),
        "filters_hit_in_reference": sorted(sets.get("filters_hit", ())),
        "logical_time_fs_operations": counters.get("fs_ops", 0),
        "via": counters.get("via", {}),
    }


def minimise(env: Env, case: dict[str, Any], fp: str, budget_evals: int = 400) -> dict[str, Any]:
    budget = [budget_evals]

    import time as _time

    deadline = _time.time() + float(os.environ.get("VERIF_MINIMISE_BUDGET_S", "150"))

    def fails(c: dict[str, Any]) -> bool:
        if budget[0] <= 0 or _time.time() > deadline:
            return False  # out of evaluations or wall-clock: keep the best case found so far
        budget[0] -= 1
        r = env.run(c)
        return r["verdict"] == "violation" and any(v["fingerprint"] == fp for v in r.get("violations", []))

    best = case
    # arguments (the schedules' arg permutations are clipped to the remaining arguments)
    if len(best["args"]) > 1:
        kept = ddmin(best["args"], lambda a: bool(a) and fails(dict(best, args=a, schedules=[dict(s, arg_perm=list(range(len(a)))) for s in best["schedules"]])), budget)
        if kept:
            best = dict(best, args=kept, schedules=[dict(s, arg_perm=list(range(len(kept)))) for s in best["schedules"]])
    # tree entries (keep t and outside; a dropped directory drops its content because parents are re-created on demand)
    ents = [k for k in best["entries"] if k not in ("t", "outside")]
    kept_e = ddmin(ents, lambda es: fails(dict(best, entries={k: v for k, v in best["entries"].items() if k in es or k in ("t", "outside")})), budget)
    best = dict(best, entries={k: v for k, v in best["entries"].items() if k in kept_e or k in ("t", "outside")})
    # settings towards defaults
    for key, dflt in (("extend_include", []), ("exclude", None), ("extend_exclude", []), ("respect_gitignore", True), ("force_exclude", False), ("files_max_size", 1_048_576)):
        if best["settings"][key] != dflt:
            cand = dict(best, settings=dict(best["settings"], **{key: dflt}))
            if fails(cand):
                best = cand
    # ignore-file lines
    for rel, ent in list(best["entries"].items()):
        if "txt" in ent:
            lines = ent["txt"].splitlines()
            kept_l = ddmin(lines, lambda ls: fails(dict(best, entries={**best["entries"], rel: {"txt": "\n".join(ls) + "\n"}})), budget)
            best = dict(best, entries={**best["entries"], rel: {"txt": "\n".join(kept_l) + "\n"}})
    return dict(best, minimised=True, minimise_evals=budget_evals - budget[0])
