"""Deterministic simulation with fault injection for jlevy/flowmark (see /verif/DESIGN.md)."""
