"""
C13 - each formatting call is isolated from other calls (histories x schedules). Engine A.

Workload: a history of epochs; an epoch is a set of simulated caller threads each running a list
of formatting calls. Oracle: every call that returns must return exactly what the same call
returns as the first and only call of a pristine process (reference computed by forking a process
that has imported flowmark and never formatted anything). Faults: aborted calls (victim exempt,
everyone else strict), cache evictions and GC at yield points (strict).
"""

from __future__ import annotations

import itertools
import json
import os
import pickle
import select
import signal
import sys
import tempfile
from typing import Any

from . import corpus, sched
from .core import canon, ddmin, digest, shrink_text_lines, sub_rng

CHECK = "C13"
CHUNK = 24
SET_KEYS = ("phase_overlap", "preempt_pairs", "swept_sites")
TIERS = {"quick": 2400, "thorough": 40000}
WALL_CAP = {"quick": 600.0, "thorough": 3300.0}
DET_SAMPLE = {"quick": 64, "thorough": 1000}
RULE = (
    "evaluation = one simulated run: a history of 1-4 epochs (sequential or 2-4 simulated caller threads, <= 12 formatting calls) "
    "executed under one seeded schedule (Bernoulli / PCT / site-targeted) and fault list (aborted call, cache eviction, GC), every "
    "returned call compared with its pristine-process reference. distinct_nontrivial = distinct event-log digests among runs that "
    "contain more than one call or at least one voluntary thread switch (a single call run alone cannot show interference)."
)
ASSUMPTIONS = [
    "pre-emption only at Python call (optionally return / line) events of frames under flowmark/ and marko/; C extensions (regex, _functools), the interpreter and individual bytecodes are atomic",
    "reference = the same call executed first-and-only in a forked child of a worker that has imported flowmark and formatted nothing",
    "one Markdown object is never shared between threads by the workload (Marko documents that as unsupported)",
    "locks created through threading.Lock/RLock after the harness patch are cooperative; other blocking primitives are not simulated",
]
COMPONENTS = {
    "real": ["flowmark.reformat_text / fill_markdown / fill_text / flowmark_markdown().convert / wrap_paragraph", "marko parser and renderer", "regex/re", "CPython threads (one runnable at a time)"],
    "stub": ["OS thread scheduling (baton passing + seeded policy)", "threading.Lock/RLock (SimLock)", "KeyboardInterrupt/MemoryError-style aborts (InjectedAbort raised from the trace function)"],
}

# ---------------------------------------------------------------------------------------------
# executing one call descriptor against the flowmark API (the only place that touches it)


def _wrapper(spec: dict[str, Any]) -> Any:
    import flowmark
    from flowmark.formats import flowmark_markdown as fm

    k = spec["kind"]
    if k == "default_semantic":
        return fm.DEFAULT_SEMANTIC_LINE_WRAPPER
    if k == "default_fixed":
        return fm.DEFAULT_FIXED_LINE_WRAPPER
    extra: dict[str, Any] = {}
    if spec.get("len_fn") == "wide":
        extra["len_fn"] = _wide_len
    if k == "to_width":
        return flowmark.line_wrap_to_width(width=spec["width"], is_markdown=spec["is_markdown"], **extra)
    if k == "by_sentence":
        if "min_line_len" in spec:
            extra["min_line_len"] = spec["min_line_len"]
        if spec.get("split") == "first_only":
            extra["split_sentences"] = _split_first_only
        return flowmark.line_wrap_by_sentence(width=spec["width"], is_markdown=spec["is_markdown"], **extra)
    if k == "identity":
        return _identity_wrapper
    raise ValueError(k)


def _heuristic(mode: str, word: str) -> bool:
    if mode == "semi":
        return word.endswith((";", ".", "?", "!"))
    if mode == "never":
        return False
    if mode == "colon":
        return word.endswith((":", "."))
    return len(word) > 4 and word.endswith(".")


# user-supplied callables (every public parameter of the wrapper factories is part of "options")
def _wide_len(s: str) -> int:
    return sum(2 if ord(ch) > 0x2E7F else 1 for ch in s)


def _split_first_only(text: str) -> list[str]:
    import flowmark

    parts = flowmark.split_sentences_regex(text, min_length=0)
    return [parts[0], " ".join(parts[1:])] if len(parts) > 1 else parts


def _identity_wrapper(text: str, initial_indent: str, subsequent_indent: str) -> str:
    return initial_indent + " ".join(text.split())


def exec_call(c: dict[str, Any]) -> str:
    import flowmark
    from flowmark.formats.flowmark_markdown import ListSpacing

    api = c["api"]
    kw = dict(c.get("kw", {}))
    if "list_spacing" in kw:
        kw["list_spacing"] = ListSpacing(kw["list_spacing"])
    if "line_wrapper" in kw:
        kw["line_wrapper"] = _wrapper(kw["line_wrapper"])
    if api == "reformat_text":
        return flowmark.reformat_text(c["text"], **kw)
    if api == "fill_markdown":
        return flowmark.fill_markdown(c["text"], **kw)
    if api == "fill_text":
        kw["text_wrap"] = flowmark.Wrap(kw.get("text_wrap", "wrap"))
        if kw.get("word_splitter") == "simple":
            kw["word_splitter"] = flowmark.simple_word_splitter
        return flowmark.fill_text(c["text"], **kw)
    if api == "convert":
        md = flowmark.flowmark_markdown(kw["line_wrapper"], kw.get("list_spacing", ListSpacing.preserve))
        return md.convert(c["text"])
    if api == "reuse":
        # one Markdown object used for several documents one after another (same thread)
        md = flowmark.flowmark_markdown(kw["line_wrapper"], kw.get("list_spacing", ListSpacing.preserve))
        return "\x00".join(md.convert(t) for t in c["texts"])
    if api == "wrap_paragraph":
        return flowmark.wrap_paragraph(c["text"], **kw)
    if api == "sentences":
        if "heuristic" in kw:
            # a per-call temporary callable (functools.partial): freed after the call, so a later
            # temporary may live at the same address
            import functools

            kw["heuristic"] = functools.partial(_heuristic, kw["heuristic"])
            return "\x00".join(flowmark.split_sentences_regex(c["text"], **kw)) + "\x01" + flowmark.first_sentence(c["text"], heuristic=functools.partial(_heuristic, c["kw"]["heuristic"])) + "\x01" + "\x00".join(flowmark.first_sentences(c["text"], 2, heuristic=functools.partial(_heuristic, c["kw"]["heuristic"])) if hasattr(flowmark, "first_sentences") else [])
        return "\x00".join(flowmark.split_sentences_regex(c["text"], **kw)) + "\x01" + flowmark.first_sentence(c["text"]) + "\x01" + "\x00".join(flowmark.wrap_paragraph_lines(c["text"], width=kw.get("min_length", 15) + 25))
    if api == "pipeline":
        # the stages of fill_markdown used directly (parse, tree transforms with library and
        # user rewrite functions, render) - the documented way to add one's own transform
        from flowmark.formats.frontmatter import split_frontmatter
        from flowmark.linewrapping.tag_handling import preprocess_tag_block_spacing
        from flowmark.transforms.doc_cleanups import doc_cleanups
        from flowmark.transforms.doc_transforms import rewrite_text_across_inlines, rewrite_text_content
        from flowmark.typography.ellipses import ellipses
        from flowmark.typography.smartquotes import smart_quotes

        fm, content = split_frontmatter(c["text"])
        md = flowmark.flowmark_markdown(kw["line_wrapper"], kw.get("list_spacing", ListSpacing.preserve))
        doc = md.parse(preprocess_tag_block_spacing((content if fm else c["text"]).strip() + "\n"))
        for st in c["stages"]:
            if st == "cleanups":
                doc_cleanups(doc)
            elif st == "smartquotes":
                rewrite_text_across_inlines(doc, smart_quotes)
            elif st == "ellipses":
                rewrite_text_content(doc, ellipses, coalesce_lines=True)
            elif st == "upper":
                rewrite_text_content(doc, _user_rewrite)
            elif st == "upper_coalesced":
                rewrite_text_content(doc, _user_rewrite, coalesce_lines=True)
            elif st == "across_user":
                rewrite_text_across_inlines(doc, _user_rewrite)
        return fm + md.render(doc)
    if api == "helpers":
        from flowmark.formats.frontmatter import has_frontmatter, split_frontmatter
        from flowmark.linewrapping.tag_handling import preprocess_tag_block_spacing
        from flowmark.typography.ellipses import ellipses
        from flowmark.typography.smartquotes import smart_quotes

        t = c["text"]
        sp = flowmark.get_html_md_word_splitter()
        return "\x01".join([smart_quotes(t), ellipses(t), "\x00".join(split_frontmatter(t)), str(has_frontmatter(t)), "\x00".join(sp(t)), "\x00".join(flowmark.simple_word_splitter(t)), preprocess_tag_block_spacing(t)])
    if api == "cli":
        # the command-line layer called repeatedly in one process (an editor plug-in, a test
        # runner, a pre-commit hook all do): main(argv) on a private copy of the document in a
        # project directory that holds the run's config file; the outcome is exit code + bytes
        from flowmark.cli import main

        d = _cli_dir(c["cfg"])
        path = os.path.join(d, f"doc{next(_CLI_SEQ)}.md")
        with open(path, "w", encoding="utf-8", newline="") as f:
            f.write(c["text"])
        os.chdir(d)  # (every cli call of a run uses the same directory: idempotent across threads)
        argv = list(c["argv"])
        out_path = path
        if c["mode"] == "out":
            out_path = path + ".out"
            argv += ["-o", out_path]
        code = main(argv + [path])
        try:
            with open(out_path, encoding="utf-8", newline="") as f:
                got = f.read()
        except OSError:
            got = "<no output>"
        for q in (path, path + ".out", path + ".orig"):
            try:
                os.unlink(q)
            except OSError:
                pass
        return f"{code}\x01{got}"
    raise ValueError(api)


_CLI_SEQ = itertools.count()
_CLI_DIRS: dict[str, str] = {}
SCRATCH_BASE = "/dev/shm" if os.path.isdir("/dev/shm") and os.access("/dev/shm", os.W_OK) else tempfile.gettempdir()


_CLI_CFG_NAMES = (".flowmark.toml", "flowmark.toml", "pyproject.toml")


def _cli_dir(cfg: dict[str, str] | None) -> str:
    """
    The project directory of this process' cli calls, holding exactly the config file `cfg`.
    One directory per process: a later call with another config *edits the project's config*
    (all cli calls of one epoch carry the same config, so concurrent calls agree on it; this
    function runs between yield points, i.e. atomically as far as the scheduler is concerned).
    """
    key = str(os.getpid())
    d = _CLI_DIRS.get(key)
    if d is None:
        d = tempfile.mkdtemp(prefix="dst-c13-" + os.environ.get("VERIF_RUN_TAG", "x") + "-", dir=SCRATCH_BASE)
        d = os.path.join(d, "proj")
        os.makedirs(d)
        # a barrier above the project so that no config file farther up is ever consulted
        with open(os.path.join(os.path.dirname(d), ".flowmark.toml"), "w") as f:
            f.write("")
        _CLI_DIRS[key] = d
        _CLI_DIRS[key + ":cfg"] = "null"
    want = json.dumps(cfg, sort_keys=True)
    if _CLI_DIRS[key + ":cfg"] != want:
        for n in _CLI_CFG_NAMES:
            try:
                os.unlink(os.path.join(d, n))
            except OSError:
                pass
        if cfg:
            with open(os.path.join(d, cfg["name"]), "w", encoding="utf-8") as f:
                f.write(cfg["text"])
        _CLI_DIRS[key + ":cfg"] = want
    return d


def _cleanup_cli_dirs() -> None:
    import shutil

    for k_, d in list(_CLI_DIRS.items()):
        if not k_.endswith(":cfg"):
            shutil.rmtree(os.path.dirname(d), ignore_errors=True)
    _CLI_DIRS.clear()


def _user_rewrite(s: str) -> str:
    return s.replace("the", "THE").replace("--", "\u2014")


def outcome_of(c: dict[str, Any]) -> tuple[str, str]:
    try:
        return ("ok", exec_call(c))
    except Exception as e:  # noqa: BLE001 - the outcome *is* the exception class
        return ("exc", type(e).__name__)


# ---------------------------------------------------------------------------------------------
# pristine reference server


def pristine_outcome(c: dict[str, Any]) -> tuple[str, str]:
    """
    Outcome of `c` as the first and only call of a process that has just imported flowmark: the
    calling worker has imported flowmark and never formats anything itself; one forked child per
    call computes the outcome and pipes it back.
    """
    r, w = os.pipe()
    pid = os.fork()
    if pid == 0:
        try:
            os.close(r)
            data = pickle.dumps(outcome_of(c))
            _cleanup_cli_dirs()
            off = 0
            while off < len(data):
                off += os.write(w, data[off : off + 65536])
        finally:
            os._exit(0)
    os.close(w)
    buf = b""
    timed_out = False
    while True:
        rl, _, _ = select.select([r], [], [], 120.0)
        if not rl:
            timed_out = True
            os.kill(pid, signal.SIGKILL)
            break
        chunk = os.read(r, 65536)
        if not chunk:
            break
        buf += chunk
    os.close(r)
    os.waitpid(pid, 0)
    if timed_out or not buf:
        return ("harness", "reference process produced no outcome")
    return tuple(pickle.loads(buf))  # type: ignore[return-value]


# ---------------------------------------------------------------------------------------------
# workload generation

APIS = ["reformat_text"] * 8 + ["fill_markdown"] * 4 + ["fill_text"] * 2 + ["convert"] * 2 + ["reuse"] + ["wrap_paragraph"] + ["sentences"] * 2 + ["pipeline"] * 2 + ["helpers"]
STAGES = ["cleanups", "smartquotes", "ellipses", "upper", "upper_coalesced", "across_user"]
WRAPS = ["none", "wrap", "wrap_full", "wrap_indent", "indent_only", "hanging_indent", "markdown_item"]


def _gen_wrapper(rng: Any) -> dict[str, Any]:
    k = rng.choice(["default_semantic", "default_fixed", "to_width", "by_sentence", "by_sentence", "identity"])
    spec: dict[str, Any] = {"kind": k}
    if k in ("to_width", "by_sentence"):
        spec["width"] = rng.choice([0, 20, 40, 60, 88])
        spec["is_markdown"] = rng.random() < 0.8
        if rng.random() < 0.2:
            spec["len_fn"] = "wide"
    if k == "by_sentence":
        if rng.random() < 0.5:
            spec["min_line_len"] = rng.choice([0, 5, 40, 20])
        if rng.random() < 0.15:
            spec["split"] = "first_only"
    return spec


def gen_call(rng: Any, text: str | None = None, base: dict[str, Any] | None = None) -> dict[str, Any]:
    api = rng.choice(APIS)
    if text is None:
        text = corpus.gen_doc(rng)
    # an application typically formats many documents with one option set: most calls of a run
    # share the run's base options (a cache keyed by options is shared exactly then)
    use_base = base is not None and rng.random() < 0.8
    if api == "reformat_text":
        return {"api": api, "text": text, "kw": dict(base) if use_base and base else corpus.gen_options(rng)}
    if api == "fill_markdown":
        o = dict(base) if use_base and base else corpus.gen_options(rng, allow_plaintext=False)
        del o["plaintext"]
        if rng.random() < 0.3:
            o["dedent_input"] = rng.random() < 0.5
            if o["dedent_input"] and rng.random() < 0.5:
                text = "\n".join("    " + ln if ln else ln for ln in text.split("\n"))
        if rng.random() < 0.35:
            o["line_wrapper"] = _gen_wrapper(rng)
        return {"api": api, "text": text, "kw": o}
    if api == "fill_text":
        kw = {"text_wrap": rng.choice(WRAPS), "width": rng.choice([20, 40, 88])}
        if rng.random() < 0.3:
            kw["extra_indent"] = rng.choice(["  ", "> "])
        if rng.random() < 0.15:
            kw["empty_indent"] = rng.choice([">", " #"])
        if rng.random() < 0.15:
            kw["initial_column"] = rng.choice([4, 30])
        if rng.random() < 0.15:
            kw["word_splitter"] = "simple"
        return {"api": api, "text": text, "kw": kw}
    if api == "convert":
        return {"api": api, "text": text, "kw": {"line_wrapper": _gen_wrapper(rng), "list_spacing": rng.choice(corpus.LIST_SPACINGS)}}
    if api == "reuse":
        a, b = corpus.gen_interference_pair(rng)
        return {"api": api, "texts": [a, b, text][: rng.randint(2, 3)], "kw": {"line_wrapper": _gen_wrapper(rng), "list_spacing": rng.choice(corpus.LIST_SPACINGS)}}
    if api == "pipeline":
        return {"api": api, "text": text, "stages": rng.sample(STAGES, rng.randint(0, 3)), "kw": {"line_wrapper": _gen_wrapper(rng), "list_spacing": rng.choice(corpus.LIST_SPACINGS)}}
    if api == "helpers":
        return {"api": api, "text": text, "kw": {}}
    if api == "sentences":
        # sentence helpers on a paragraph of a shared document (same text as the formatting calls see)
        paras = [p for p in text.split("\n\n") if p.strip()]
        kws: dict[str, Any] = {"min_length": rng.choice([0, 15, 40])}
        if rng.random() < 0.5:
            kws["heuristic"] = rng.choice(["semi", "never", "colon", "long"])
        return {"api": api, "text": rng.choice(paras) if paras else text, "kw": kws}
    para = corpus.paragraph(rng, 1, 4, raw_breaks=False)
    if rng.random() < 0.5:
        paras = [p for p in text.split("\n\n") if p.strip() and "\n" not in p]
        if paras:
            para = rng.choice(paras)
    return {"api": "wrap_paragraph", "text": para, "kw": {"width": rng.choice([20, 40, 88]), "initial_indent": rng.choice(["", "- "]), "subsequent_indent": rng.choice(["", "  "]), "is_markdown": rng.random() < 0.5}}


def gen_cli_cfg(rng: Any) -> dict[str, str] | None:
    """The project's config file for the cli calls of a run (None: no config file)."""
    if rng.random() < 0.2:
        return None
    keys: dict[str, Any] = {}
    if rng.random() < 0.7:
        keys["width"] = rng.choice([30, 40, 60])
    for kname in ("semantic", "cleanups", "smartquotes", "ellipses"):
        if rng.random() < 0.35:
            keys[kname] = rng.random() < 0.7
    if rng.random() < 0.4:
        keys["list-spacing"] = rng.choice(["loose", "tight", "preserve"])
    if rng.random() < 0.2:
        keys["files-max-size"] = rng.choice([0, 1_000_000])

    def toml(v: Any) -> str:
        return ("true" if v else "false") if isinstance(v, bool) else (str(v) if isinstance(v, int) else '"' + v + '"')

    body = "".join(f"{k} = {toml(v)}\n" for k, v in keys.items())
    name = rng.choice([".flowmark.toml", "flowmark.toml", "pyproject.toml"])
    if name == "pyproject.toml":
        body = '[project]\nname = "x"\n\n[tool.flowmark]\n' + body
    elif rng.random() < 0.3:
        body = "[formatting]\n" + body
    return {"name": name, "text": body}


def gen_cli_call(rng: Any, text: str, cfg: dict[str, str] | None) -> dict[str, Any]:
    mode = rng.choice(["auto", "auto", "inplace"])  # (`-o FILE` with a file argument is a usage error in flowmark)
    argv: list[str] = []
    if rng.random() < 0.4:
        argv += rng.choice([["-w", str(rng.choice([20, 50, 60, 88]))], ["--width=" + str(rng.choice([50, 70]))]])
    for flag in ("-s", "-c", "--smartquotes", "--ellipses"):
        if rng.random() < 0.2:
            argv.append(flag)
    if rng.random() < 0.25:
        argv += ["--list-spacing", rng.choice(["loose", "tight", "preserve"])]
    if rng.random() < 0.12:
        argv += rng.choice([["--files-max-size", "0"], ["--extend-include", "*.txt"], ["--no-respect-gitignore"], ["--force-exclude"], ["--extend-exclude", "drafts/"]])
    argv += {"auto": ["--auto"], "inplace": rng.choice([["-i"], ["-i", "--nobackup"]]), "out": []}[mode]
    rng.shuffle(argv) if "-w" not in argv and "--list-spacing" not in argv and "--files-max-size" not in argv and "--extend-include" not in argv and "--extend-exclude" not in argv else None
    return {"api": "cli", "text": text, "argv": argv, "mode": "out" if mode == "out" else "inplace", "cfg": cfg, "kw": {}}


def call_text_len(c: dict[str, Any]) -> int:
    if "texts" in c:
        return sum(len(t) for t in c["texts"])
    return len(c["text"])


def _probe_calls(w: Any, base: dict[str, Any], n: int) -> list[dict[str, Any]]:
    out = []
    for text in [corpus.PROBE_ALL] + [corpus.gen_sentence_mix(w) if w.random() < 0.3 else t for t in w.sample(corpus.PROBE_DOCS, n - 1)]:
        o = dict(base) if w.random() < 0.75 else corpus.gen_options(w, allow_plaintext=False)
        o["plaintext"] = False
        out.append({"api": "reformat_text", "text": text, "kw": o})
    return out


def gen_probe_case(run_seed: int, tier: str, shape: str) -> dict[str, Any]:
    """
    'abort_probe': a victim call aborted at a seeded point of its own execution, then a battery
    of probe documents in the same simulated thread (and sometimes a second thread running probes
    concurrently). 'history_probe': the same without the abort (pure history dependence).
    """
    w = sub_rng(run_seed, "workload")
    base = corpus.gen_options(w, allow_plaintext=False)
    if w.random() < 0.6:
        base["width"] = w.choice([40, 88, 88])
    kinds = ["plain", "plain", "random", "pair_a", "probe", "mix"]

    def victim_text() -> str:
        k = w.choice(kinds)
        if k == "plain":
            return corpus.gen_plain_doc(w)
        if k == "random":
            return corpus.gen_doc(w)
        if k == "pair_a":
            return corpus.gen_interference_pair(w)[0]
        if k == "mix":
            return corpus.gen_sentence_mix(w)
        return w.choice(corpus.PROBE_DOCS)

    threads: list[list[dict[str, Any]]] = []
    faults: list[dict[str, Any]] = []
    nthreads = w.choice([1, 1, 1, 2])
    for t in range(nthreads):
        calls: list[dict[str, Any]] = []
        nv = w.choice([1, 1, 2])
        for _ in range(nv):
            vt = victim_text()
            api = w.choice(["reformat_text", "reformat_text", "fill_markdown"])
            o = dict(base)
            if api == "fill_markdown":
                del o["plaintext"]
            calls.append({"api": api, "text": vt, "kw": o})
            if shape == "abort_probe" and (t == 0 or w.random() < 0.5):
                est = max(20, len(vt) * 5)
                faults.append({"kind": "abort", "step": 0, "call": [0, t, len(calls) - 1], "local": w.randrange(1, est), **({"exc": "exception"} if w.random() < 0.3 else {})})
        calls += _probe_calls(w, base, w.randint(2, 4))
        threads.append(calls)
    epochs = [{"threads": threads}]
    if w.random() < 0.4:
        # a later epoch on the same (pooled) threads: more probes
        epochs.append({"threads": [_probe_calls(w, base, 2) for _ in range(nthreads)]})
    est_steps = max(200, sum(call_text_len(c) for ep in epochs for th in ep["threads"] for c in th) * 5)
    p = sub_rng(run_seed, "policy")
    policy: dict[str, Any] = {"kind": "bernoulli", "seed": p.getrandbits(48), "p": p.choice([1 / 50, 1 / 500, 1 / 5000])} if nthreads > 1 else {"kind": "none"}
    return {"check": CHECK, "run_seed": run_seed, "shape": shape, "epochs": epochs, "policy": policy, "faults": faults, "granularity": "call", "est_steps": est_steps, "step_cap": 0}


GEN_TAKES_INDEX = True
SWEEP_EVERY = 5  # every 5th run index belongs to the systematic single-preemption sweep


def gen_sweep_case(run_seed: int, tier: str, j: int) -> dict[str, Any]:
    """
    Systematic single-preemption schedule: two simulated threads format two all-features
    documents; thread x is parked at the (j-th, cyclically) distinct yield site of its own
    execution, thread y then runs to completion, x resumes. Sweeping j over the site inventory
    covers every "x has set something, y clobbers it, x reads it back" window of this workload
    once per direction - including sites that are passed only once or twice per call, which a
    step-uniform random scheduler almost never hits.
    """
    # documents and options are fixed per lap so that the site ordering is the same in every run of
    # a lap: each distinct site is then visited exactly once per direction and granularity
    docs = [corpus.PROBE_ALL, corpus.PROBE_ALL_B]
    pattern = ["call", "call", "return"] if tier == "quick" else ["call", "return", "line"]
    half = j // 2
    cycle, pos = divmod(half, len(pattern))
    gran = pattern[pos]
    per_cycle = pattern.count(gran)
    site_number = cycle * per_cycle + pattern[:pos].count(gran)
    lap = site_number // 700  # (more than the number of distinct sites of either document)
    base = dict(SWEEP_OPTS[lap % len(SWEEP_OPTS)])
    threads = [[{"api": "reformat_text", "text": docs[0], "kw": base}], [{"api": "reformat_text", "text": docs[1], "kw": dict(base)}]]
    policy = {"kind": "sweep", "x": j % 2, "site_number": site_number, "seed": run_seed & 0xFFFFFFFF}
    est = sum(len(d) for d in docs) * {"call": 5, "return": 10, "line": 20}[gran]
    return {"check": CHECK, "run_seed": run_seed, "shape": "site_sweep", "epochs": [{"threads": threads}], "policy": policy, "faults": [], "granularity": gran, "est_steps": est, "step_cap": 0}


SWEEP_OPTS = [
    {"width": 88, "plaintext": False, "semantic": True, "cleanups": True, "smartquotes": True, "ellipses": True, "list_spacing": "preserve"},
    {"width": 40, "plaintext": False, "semantic": False, "cleanups": False, "smartquotes": False, "ellipses": False, "list_spacing": "loose"},
    {"width": 60, "plaintext": False, "semantic": True, "cleanups": False, "smartquotes": True, "ellipses": False, "list_spacing": "tight"},
]


def gen_long_history_case(run_seed: int, tier: str) -> dict[str, Any]:
    """
    One thread, several hundred calls on small distinct documents (untraced, so cheap), with probe
    documents in between: state that needs MANY calls to show (a bounded cache evicting, a pool
    recycling objects, a counter wrapping) gets its many calls.
    """
    w = sub_rng(run_seed, "workload")
    base = corpus.gen_options(w, allow_plaintext=False)
    base["plaintext"] = False
    n = w.choice([140, 300, 520])
    calls: list[dict[str, Any]] = []
    for i in range(n):
        r = w.random()
        if i % 40 == 39:
            text = w.choice(corpus.PROBE_DOCS)
        elif r < 0.5:
            text = f"Note {i}: " + corpus.plain_sentence(w) + " " + corpus.plain_sentence(w) + "\n"
        elif r < 0.8:
            text = corpus.gen_sentence_mix(w)
        else:
            text = f"- item {i}\n- `code{i}` and [l{i}](https://e.x/{i})\n\n" + corpus.plain_sentence(w) + "\n"
        o = dict(base) if w.random() < 0.85 else dict(corpus.gen_options(w, allow_plaintext=False), plaintext=False)
        calls.append({"api": "reformat_text", "text": text, "kw": o})
    calls.append({"api": "reformat_text", "text": corpus.PROBE_ALL, "kw": dict(base)})
    return {"check": CHECK, "run_seed": run_seed, "shape": "long_history", "untraced": True, "epochs": [{"threads": [calls]}], "policy": {"kind": "none"}, "faults": [], "granularity": "call", "est_steps": 1000, "step_cap": 0}


def gen_deep_case(run_seed: int, tier: str) -> dict[str, Any]:
    """
    Two or three threads, one of them formatting a list nested deeper than the default recursion
    limit allows, pre-empted only at the call/return of the public entry points ("api"
    granularity: such a document makes millions of internal calls). Process-wide interpreter
    settings (recursion limit, switch interval, locale ...) that a call changes and restores
    are shared state too.
    """
    w = sub_rng(run_seed, "workload")
    base = corpus.gen_options(w, allow_plaintext=False)
    base["plaintext"] = False
    small = lambda: {"api": w.choice(["reformat_text", "fill_markdown"]), "text": w.choice([corpus.gen_plain_doc(w), corpus.gen_sentence_mix(w), w.choice(corpus.PROBE_DOCS)]), "kw": None}  # noqa: E731
    threads: list[list[dict[str, Any]]] = []
    deep_t = w.randrange(2)
    for t in range(w.choice([2, 2, 3])):
        calls = []
        for _ in range(w.randint(1, 3)):
            c = small()
            o = dict(base)
            if c["api"] == "fill_markdown":
                del o["plaintext"]
            c["kw"] = o
            calls.append(c)
        if t == deep_t:
            calls.insert(w.randint(0, len(calls)), {"api": "reformat_text", "text": corpus.gen_deep_doc(w), "kw": dict(base)})
        threads.append(calls)
    p = sub_rng(run_seed, "policy")
    policy: dict[str, Any] = {"kind": "bernoulli", "seed": p.getrandbits(48), "p": p.choice([1 / 2, 1 / 3, 1 / 6])}
    if p.random() < 0.6:
        # the few yield points of these runs make the interesting order cheap to aim at: a small
        # call starts, is parked after k of its steps, the deep call runs j steps, the small call
        # finishes (restoring whatever it saved) while the deep call is still in flight
        # (a call passes about 8 yield points at this granularity)
        small_t = p.choice([t for t in range(len(threads)) if t != deep_t])
        deep_pos = next(i for i, c in enumerate(threads[deep_t]) if c["api"] == "reformat_text" and len(c["text"]) > 3000 and c["text"].startswith("- item 0"))
        k_ = 8 * p.randrange(len(threads[small_t])) + p.randint(2, 7)
        j_ = 8 * deep_pos + p.randint(1, 8)
        policy = {"kind": "pct", "order": [small_t, deep_t] + [t for t in range(len(threads)) if t not in (small_t, deep_t)], "change_steps": [k_, k_ + j_]}
    return {"check": CHECK, "run_seed": run_seed, "shape": "deep_concurrent", "epochs": [{"threads": threads}], "policy": policy, "faults": [], "granularity": "api", "est_steps": 500, "step_cap": 200000}


def gen_case(run_seed: int, tier: str, index: int | None = None) -> dict[str, Any]:
    if index is not None and index % SWEEP_EVERY == SWEEP_EVERY - 1:
        return gen_sweep_case(run_seed, tier, index // SWEEP_EVERY)
    shape = sub_rng(run_seed, "shape").choices(["mixed", "abort_probe", "history_probe", "long_history", "deep_concurrent"], [61, 20, 15, 2, 2])[0]
    if shape == "long_history":
        return gen_long_history_case(run_seed, tier)
    if shape == "deep_concurrent":
        return gen_deep_case(run_seed, tier)
    if shape != "mixed":
        return gen_probe_case(run_seed, tier, shape)
    w = sub_rng(run_seed, "workload")
    n_epochs = w.choice([1, 1, 2, 2, 3, 4])
    epochs = []
    pool: list[str] = []
    for _ in range(w.randint(1, 2)):
        a, b = corpus.gen_interference_pair(w)
        pool += [a, b]
    for _ in range(w.randint(0, 2)):
        pool.append(corpus.gen_doc(w))
    for _ in range(w.randint(0, 3)):
        pool.append(corpus.gen_sentence_mix(w))

    pool.append(corpus.DISCRIMINATING_DOC)
    base = corpus.gen_options(w, allow_plaintext=False) if w.random() < 0.7 else None
    # some runs are (mostly) a history of command-line invocations in one process, all in one
    # project directory with one config file
    cw = sub_rng(run_seed, "cli")
    cli_run = cw.random() < 0.1
    cli_cfg = gen_cli_cfg(cw) if cli_run else None
    total_calls = 0
    for e in range(n_epochs):
        if cli_run and e and cw.random() < 0.5:
            cli_cfg = gen_cli_cfg(cw)  # somebody edits the project's config file between two epochs
        concurrent = w.random() < 0.65
        nthreads = w.choice([2, 2, 3, 3, 4]) if concurrent else 1
        threads = []
        for _t in range(nthreads):
            ncalls = w.randint(1, 3 if concurrent else 4)
            calls = []
            for _c in range(ncalls):
                if total_calls >= 12:
                    break
                text = w.choice(pool) if w.random() < 0.75 else None
                if cli_run and cw.random() < 0.65:
                    calls.append(gen_cli_call(cw, text if text is not None else corpus.gen_doc(cw), cli_cfg))
                else:
                    calls.append(gen_call(w, text, base))
                total_calls += 1
                last = calls[-1]
                if last["api"] == "sentences" and "heuristic" in last["kw"] and w.random() < 0.8:
                    # the same text under a different value of the same parameter, right afterwards
                    other = w.choice([h for h in ("semi", "never", "colon", "long") if h != last["kw"]["heuristic"]])
                    calls.append({"api": "sentences", "text": last["text"], "kw": dict(last["kw"], heuristic=other)})
                    total_calls += 1
            if calls:
                threads.append(calls)
        if threads:
            epochs.append({"threads": threads})
    if not epochs:
        epochs.append({"threads": [[gen_call(w, pool[0])]]})

    k = sub_rng(run_seed, "knobs")
    granularity = k.choices(["call", "return", "line"], [70, 15, 15])[0]
    per_char = {"call": 5, "return": 10, "line": 8}[granularity]
    ep_est = [max(50, sum(call_text_len(c) for th in ep["threads"] for c in th) * per_char) for ep in epochs]
    est_steps = sum(ep_est)
    # estimated step ranges of the concurrent epochs (switch points are only useful there)
    conc_ranges = []
    off = 0
    for ep, n in zip(epochs, ep_est):
        if len(ep["threads"]) > 1:
            conc_ranges.append((off + 1, off + n))
        off += n
    p = sub_rng(run_seed, "policy")
    strat = p.choices(["bernoulli", "pct", "targeted"], [50, 30, 20])[0]
    maxthreads = max(len(ep["threads"]) for ep in epochs)
    policy: dict[str, Any]
    if strat == "bernoulli":
        policy = {"kind": "bernoulli", "seed": p.getrandbits(48), "p": p.choice([1 / 20, 1 / 50, 1 / 200, 1 / 1000, 1 / 5000])}
    elif strat == "pct":
        order = list(range(maxthreads))
        p.shuffle(order)
        d = p.choice([1, 2, 3, 5])
        pts = []
        for _ in range(d):
            lo, hi = p.choice(conc_ranges) if conc_ranges else (1, est_steps)
            pts.append(p.randrange(lo, max(lo + 1, int(lo + (hi - lo) * 0.8))))
        policy = {"kind": "pct", "order": order, "change_steps": sorted(pts)}
    else:
        policy = {"kind": "targeted", "seed": p.getrandbits(48)}  # site resolved by a dry run inside the run

    f = sub_rng(run_seed, "faults")
    faults: list[dict[str, Any]] = []
    faulted = f.random() < 0.35
    if faulted:
        kinds = [kd for kd in ("abort", "cache_clear", "gc") if f.random() < (0.75 if kd == "abort" else 0.5)] or ["abort"]
        for kd in kinds:
            n = 1 if kd == "abort" and f.random() < 0.7 else f.randint(1, 3)
            for _ in range(n):
                ft: dict[str, Any] = {"kind": kd, "step": f.randrange(1, est_steps)}
                if kd == "abort" and f.random() < 0.35:
                    ft["exc"] = "exception"  # an ordinary Exception instead of a BaseException
                if kd == "cache_clear":
                    ft["mask"] = f.getrandbits(31) | 1
                faults.append(ft)
        faults.sort(key=lambda x: x["step"])
    return {
        "check": CHECK,
        "run_seed": run_seed,
        "epochs": epochs,
        "policy": policy,
        "faults": faults,
        "granularity": granularity,
        "est_steps": est_steps,
        "step_cap": 0,  # filled in at run time from solo step counts (bounded liveness)
    }


def case_calls(case: dict[str, Any]) -> list[dict[str, Any]]:
    return [c for ep in case["epochs"] for th in ep["threads"] for c in th]


# ---------------------------------------------------------------------------------------------
# running one case


class Env:
    """Per-worker state: cache registry, roots, pristine server, reference memo."""

    def __init__(self) -> None:
        self.caches = sched.CacheRegistry()
        self.roots: tuple[str, ...] = ()
        self.run: Any = None  # set by the worker: executes a case in a forked child
        self.refs: dict[str, tuple[str, str]] = {}

    def setup(self) -> None:
        import importlib
        import pkgutil

        sched.install_lock_patch()  # before flowmark is imported: its locks become cooperative
        import flowmark
        import marko

        from .core import repo_src

        src = repo_src()
        assert os.path.realpath(flowmark.__file__).startswith(src + os.sep), (flowmark.__file__, src)
        # pre-import every submodule so that no import (whose module-level code calls functions
        # in flowmark files) happens inside a traced call
        for pkg in (flowmark, marko):
            for m in pkgutil.walk_packages(pkg.__path__, pkg.__name__ + "."):
                if m.name.startswith("marko.ext.codehilite") or m.name.endswith("__main__"):
                    continue
                try:
                    importlib.import_module(m.name)
                except Exception:  # optional dependency missing
                    pass
        import html  # noqa: F401
        import textwrap  # noqa: F401

        self.roots = (
            os.path.dirname(os.path.dirname(os.path.realpath(flowmark.__file__))) + os.sep,
            os.path.dirname(os.path.dirname(os.path.realpath(marko.__file__))) + os.sep,
        )
        self.caches.scan()

    def ensure_refs(self, calls: list[dict[str, Any]]) -> None:
        need: dict[str, dict[str, Any]] = {}
        for c in calls:
            key = digest(c, 24)
            if key not in self.refs and key not in need:
                need[key] = c
        for k_, c in need.items():
            self.refs[k_] = pristine_outcome(c)

    def ref(self, c: dict[str, Any]) -> tuple[str, str]:
        key = digest(c, 24)
        if key not in self.refs:
            self.ensure_refs([c])
        return self.refs[key]

    def close(self) -> None:
        pass

    def info(self) -> dict[str, Any]:
        return {"cache_objects": self.caches.labels(), "roots": list(self.roots)}


def _resolve_targeted(env: Env, case: dict[str, Any], ep_index: int, threads: list[list[dict[str, Any]]], seed: int) -> dict[str, Any]:
    """Dry run (solo, traced) of one thread's calls of this epoch to pick (site, occurrence)."""
    import random

    rng = random.Random(seed + ep_index)
    nonempty = [t for t in range(len(threads)) if threads[t]]
    if len(nonempty) < 2:
        return {"kind": "none"}
    x = rng.choice(nonempty)
    others = [t for t in nonempty if t != x]
    if not others:
        return {"kind": "none"}
    y = rng.choice(others)
    s = _dry_run(env, case, threads[x])
    assert s.site_trace is not None
    trace = s.site_trace.get(0, [])
    if not trace:
        return {"kind": "none"}
    j = rng.randrange(len(trace))
    site = trace[j]
    k = trace[: j + 1].count(site)
    m = rng.choice([1, 5, 50, 500, 5000, 50000])
    return {"kind": "targeted_named", "x": x, "y": y, "site_name": s.site_names[site - 1], "k": k, "m": m, "dry_steps": len(trace)}


class _DryResult:
    def __init__(self, trace: list[Any], names: list[str]) -> None:
        self.site_trace = {0: trace}
        self.site_names = names


def _dry_run(env: Env, case: dict[str, Any], calls: list[dict[str, Any]], trace_subs: bool = False) -> Any:
    """
    Solo traced execution of `calls` to learn the yield-site sequence - in a FORKED child, so that
    the run's own process stays cold (a dry run in-process would warm every lazily initialised or
    lazily grown global, and first-use races could never be scheduled).
    """
    r, w = os.pipe()
    pid = os.fork()
    if pid == 0:
        try:
            os.close(r)
            s = sched.Scheduler(sched.Policy(), [], case["granularity"], 10**9, env.roots, env.caches)
            s.site_trace = {}
            s.trace_subs = trace_subs

            def body(sc: sched.Scheduler, tid: int, tracer: Any) -> None:
                for c in calls:
                    sys.settrace(tracer)
                    try:
                        outcome_of(c)
                    finally:
                        sys.settrace(None)

            s.run_epoch([body])
            data = pickle.dumps((s.site_trace.get(0, []), s.site_names))
            off = 0
            while off < len(data):
                off += os.write(w, data[off : off + 65536])
        finally:
            os._exit(0)
    os.close(w)
    buf = b""
    while True:
        chunk = os.read(r, 1 << 16)
        if not chunk:
            break
        buf += chunk
    os.close(r)
    os.waitpid(pid, 0)
    if not buf:
        return _DryResult([], [])
    trace, names = pickle.loads(buf)
    return _DryResult(trace, names)


def _resolve_sweep(env: Env, case: dict[str, Any], threads: list[list[dict[str, Any]]], pol: dict[str, Any]) -> dict[str, Any]:
    """Dry run of thread x to learn its site inventory; pick the site_number-th distinct site."""
    import random

    x = pol["x"] % len(threads)
    y = 1 - x if len(threads) == 2 else (x + 1) % len(threads)
    by_line = case["granularity"] == "line"
    s = _dry_run(env, case, threads[x], trace_subs=by_line)
    assert s.site_trace is not None
    trace = s.site_trace.get(0, [])
    if by_line:
        trace = [t for t in trace if t[1] > 0]  # line events only (call events are swept in 'call' mode)
    if not trace:
        return {"kind": "none"}
    distinct: list[Any] = []
    seen: set[Any] = set()
    for st in trace:
        if st not in seen:
            seen.add(st)
            distinct.append(st)
    # rarely passed sites first: windows around hot sites are also found by the random policies
    counts = {st: 0 for st in distinct}
    for st in trace:
        counts[st] += 1
    distinct.sort(key=lambda st: counts[st])  # stable: first-appearance order among equals
    n = pol["site_number"]
    site = distinct[n % len(distinct)]
    lap = n // len(distinct)
    count = trace.count(site)
    k = 1 if lap == 0 else random.Random(pol["seed"]).randint(1, count)
    if by_line:
        return {"kind": "targeted_named", "x": x, "y": y, "site_name": s.site_names[site[0] - 1], "line": site[1], "k": k, "m": 10**9, "dry_steps": len(trace), "distinct_sites": len(distinct)}
    return {"kind": "targeted_named", "x": x, "y": y, "site_name": s.site_names[site - 1], "k": k, "m": 10**9, "dry_steps": len(trace), "distinct_sites": len(distinct)}


class TargetedNamed(sched.Policy):
    def __init__(self, desc: dict[str, Any]) -> None:
        self.d = desc
        self.count = 0
        self.back_at: int | None = None
        self.sched: sched.Scheduler | None = None

    def decide(self, step: int, tid: int, site: int, ready: list[int]) -> int | None:
        d = self.d
        assert self.sched is not None
        if self.back_at is None:
            if tid == d["x"] and self.sched.site_names[site - 1] == d["site_name"] and ("line" not in d or self.sched.cur_sub == d["line"]):
                self.count += 1
                if self.count == d["k"] and ready:
                    self.back_at = step + d["m"]
                    return d["y"] if d["y"] in ready else ready[0]
        elif step >= self.back_at and tid != d["x"] and d["x"] in ready:
            self.back_at = 1 << 60
            return d["x"]
        return None

    def pick(self, step: int, ready: list[int]) -> int:
        # the thread to be parked must run first (otherwise the other one has already finished)
        if self.back_at is None and self.d["x"] in ready:
            return self.d["x"]
        return ready[0]


class PerEpoch(sched.Policy):
    """Delegates to a per-epoch policy (used for targeted runs, where each epoch has its own target)."""

    def __init__(self) -> None:
        self.cur: sched.Policy = sched.Policy()

    def decide(self, step: int, tid: int, site: int, ready: list[int]) -> int | None:
        return self.cur.decide(step, tid, site, ready)

    def pick(self, step: int, ready: list[int]) -> int:
        return self.cur.pick(step, ready)


def run_case(env: Env, case: dict[str, Any], want_trace: bool = False) -> dict[str, Any]:
    cwd = os.getcwd()
    try:
        return _run_case(env, case, want_trace)
    finally:
        os.chdir(cwd)
        _cleanup_cli_dirs()


def _run_case(env: Env, case: dict[str, Any], want_trace: bool = False) -> dict[str, Any]:
    env.ensure_refs(case_calls(case))
    env.caches.clear_all()
    pol_desc = case["policy"]
    per_epoch: PerEpoch | None = None
    if pol_desc["kind"] in ("targeted", "sweep"):
        per_epoch = PerEpoch()
        policy: sched.Policy = per_epoch
    else:
        policy = sched.make_policy(pol_desc)
    step_cap = case.get("step_cap") or max(20000, case["est_steps"] * 40)
    s = sched.Scheduler(policy, case["faults"], case["granularity"], step_cap, env.roots, env.caches)
    mismatches: list[dict[str, Any]] = []
    results: list[dict[str, Any]] = []
    resolved_targets: list[dict[str, Any]] = []

    untraced = bool(case.get("untraced"))

    def make_body(ep_i: int, calls: list[dict[str, Any]]) -> Any:
        def body(sc: sched.Scheduler, tid: int, tracer: Any) -> None:
            for ci, c in enumerate(calls):
                sc.begin_call(tid, ci)
                start_step = sc.step
                if not untraced:
                    sys.settrace(tracer)
                try:
                    try:
                        out: tuple[str, str] = ("ok", exec_call(c))
                    finally:
                        sys.settrace(None)
                except (sched.InjectedAbort, sched.InjectedError):
                    out = ("aborted", "")
                except (sched.DeadlockAbort, sched.StepCap):
                    raise
                except Exception as e:  # noqa: BLE001
                    out = ("exc", type(e).__name__)
                victim = (ep_i, tid, ci) in sc.aborted_calls
                ref = env.ref(c)
                ok = victim or ref[0] == "harness" or out == ref
                results.append({"epoch": ep_i, "tid": tid, "call": ci, "start": start_step, "end": sc.step, "victim": victim, "ok": ok, "out": digest(out[1], 12) if out[0] == "ok" else out[0] + ":" + out[1]})
                if not ok:
                    mismatches.append({"epoch": ep_i, "tid": tid, "call": ci, "step": sc.step, "api": c["api"], "expected": ref, "got": out})

        return body

    dry_replay = case.get("dry") or {}
    dry_done: dict[str, int] = {}

    def before_epoch(ep_i: int) -> None:
        # controller, quiescent point between epochs
        threads = case["epochs"][ep_i]["threads"]
        live = [th for th in threads if th]
        # (dry runs happen in forked children and leave no trace in this process, so a replay
        # with an explicit schedule needs none)
        if per_epoch is not None:
            if len(live) > 1:
                td = _resolve_sweep(env, case, threads, pol_desc) if pol_desc["kind"] == "sweep" else _resolve_targeted(env, case, ep_i, threads, pol_desc["seed"])
                resolved_targets.append(td)
                if "x" in td:
                    dry_done[str(ep_i)] = td["x"]
                if td["kind"] == "targeted_named":
                    tp = TargetedNamed(td)
                    tp.sched = s
                    per_epoch.cur = tp
                else:
                    per_epoch.cur = sched.Policy()
            else:
                per_epoch.cur = sched.Policy()

    s.run_history([[make_body(ep_i, th) if th else None for th in ep["threads"]] for ep_i, ep in enumerate(case["epochs"])], before_epoch)

    # quiescent re-verification: every distinct call once more, sequentially, untraced, against
    # the process state this history has left behind
    post_mismatch: list[dict[str, Any]] = []
    if not (s.deadlock or s.cap_hit):
        seen: set[str] = set()
        for c in case_calls(case):
            key = digest(c, 24)
            if key in seen:
                continue
            seen.add(key)
            out = outcome_of(c)
            ref = env.ref(c)
            if ref[0] != "harness" and out != ref:
                post_mismatch.append({"api": c["api"], "expected": ref, "got": out, "call_key": key})

    verdict, fp, detail = "ok", "", {}
    if s.deadlock:
        verdict, fp = "violation", "C13/deadlock"
        detail = {"deadlock": getattr(s, "deadlock_info", {})}
    elif s.cap_hit:
        verdict, fp = "violation", "C13/no-progress-within-step-cap"
        detail = {"step_cap": step_cap, "last_fault_step": s.last_fault_step}
    elif mismatches:
        m = mismatches[0]
        conc = len(case["epochs"][m["epoch"]]["threads"]) > 1
        kind = "exception" if m["expected"][0] != m["got"][0] else "text"
        verdict, fp = "violation", f"C13/{kind}-mismatch"
        detail = {"first": m, "n": len(mismatches), "in_concurrent_epoch": conc}
    elif post_mismatch:
        verdict, fp = "violation", "C13/text-mismatch"
        detail = {"first": post_mismatch[0], "n": len(post_mismatch), "at": "quiescent re-verification"}

    log_digest = digest([s.digest(), [(r["epoch"], r["tid"], r["call"], r["start"], r["end"], r["out"]) for r in results], s.switches, s.fired], 24)
    n_conc = sum(1 for ep in case["epochs"] if len(ep["threads"]) > 1)
    res: dict[str, Any] = {
        "verdict": verdict,
        "fingerprint": fp,
        "detail": detail,
        "digest": log_digest,
        "steps": s.step,
        "schedule_digest": s.switch_hash.hexdigest() if s.n_voluntary else "",
        "nontrivial": bool(s.n_voluntary > 0 or len(case_calls(case)) > 1),
        "counters": {
            "steps": s.step,
            "calls": len(results),
            "epochs": len(case["epochs"]),
            "concurrent_epochs": n_conc,
            "voluntary_switches": s.n_voluntary,
            "forced_switches": s.n_forced,
            "faults_planned": _count([f["kind"] for f in case["faults"]]),
            "faults_fired": _count([f["kind"] for f in s.fired]),
            "victim_calls": len(s.aborted_calls),
            "granularity": {case["granularity"]: 1},
            "policy": {pol_desc["kind"]: 1},
            "shape": {case.get("shape", "mixed"): 1},
            "faulted_runs": 1 if case["faults"] else 0,
            "faultfree_runs": 0 if case["faults"] else 1,
            "api": _count([c["api"] for c in case_calls(case)]),
            "ref_exceptions": sum(1 for c in case_calls(case) if env.ref(c)[0] == "exc"),
            "ref_harness": sum(1 for c in case_calls(case) if env.ref(c)[0] == "harness"),
        },
        "phase_overlap": sorted(f"{a}|{b}" for a, b in s.phase_overlap),
        "preempt_pairs": sorted({digest([s.site_names[a - 1] if a else "", s.site_names[b - 1] if b else ""], 10) for a, b in s.preempt_pairs}),
        "sites": len(s.site_names),
        "swept_sites": sorted({f"{case['granularity']}:{td['x']}:{td['site_name']}:{td.get('line', '')}" for td in resolved_targets if td.get("kind") == "targeted_named" and pol_desc["kind"] == "sweep"}),
    }
    if want_trace or verdict != "ok":
        res["switches"] = [list(x) for x in s.switches]
        res["fired"] = s.fired
        res["results"] = results
        res["resolved_targets"] = resolved_targets
        res["dry"] = dry_done
    return res


def prepare(env: Env, cases: list[dict[str, Any]]) -> None:
    env.ensure_refs([c for case in cases for c in case_calls(case)])


def sample_of(case: dict[str, Any], res: dict[str, Any]) -> dict[str, Any]:
    def short(c: dict[str, Any]) -> dict[str, Any]:
        d = {"api": c["api"], "kw": c.get("kw", {})}
        if "text" in c:
            d["text"] = c["text"][:160] + ("..." if len(c["text"]) > 160 else "")
        else:
            d["texts"] = [t[:80] + "..." for t in c["texts"]]
        return d

    return {
        "run_seed": case["run_seed"],
        "epochs": [{"threads": [[short(c) for c in th] for th in ep["threads"]]} for ep in case["epochs"]],
        "policy": case["policy"],
        "faults": case["faults"],
        "granularity": case["granularity"],
        "steps": res["steps"],
        "voluntary_switches": res["counters"]["voluntary_switches"],
        "digest": res["digest"],
    }


def _count(xs: list[str]) -> dict[str, int]:
    d: dict[str, int] = {}
    for x in xs:
        d[x] = d.get(x, 0) + 1
    return d


# ---------------------------------------------------------------------------------------------
# minimisation


def minimise(env: Env, case: dict[str, Any], fp: str, budget_evals: int = 600) -> dict[str, Any]:
    import copy

    budget = [budget_evals]

    import time as _time

    deadline = _time.time() + float(os.environ.get("VERIF_MINIMISE_BUDGET_S", "150"))

    def fails(c: dict[str, Any]) -> bool:
        if budget[0] <= 0 or _time.time() > deadline:
            return False  # out of evaluations or wall-clock: keep the best case found so far
        budget[0] -= 1
        env.ensure_refs(case_calls(c))
        r = env.run(c)
        return r["verdict"] == "violation" and r["fingerprint"] == fp

    def with_(c: dict[str, Any], **kw: Any) -> dict[str, Any]:
        d = dict(c)
        d.update(kw)
        return d

    best = case
    # 1. no faults / coarser knobs / no schedule at all
    for kw in ({"faults": []}, {"granularity": "call"}, {"policy": {"kind": "none"}}):
        cand = with_(best, **kw)
        if cand != best and fails(cand):
            best = cand
    # 2. make the schedule explicit (replay needs no PRNG); keys are thread-relative
    if best["policy"]["kind"] != "none":
        r = env.run(best, True)
        if r["verdict"] == "violation" and r["fingerprint"] == fp:
            exp = with_(best, policy={"kind": "explicit", "switches": r["switches"]}, dry=r.get("dry") or {})
            if fails(exp):
                best = exp
    # 3. drop calls; thread and epoch positions are kept (possibly empty) so that the explicit
    #    schedule keeps addressing the same threads
    flat = [(ei, ti, ci) for ei, ep in enumerate(best["epochs"]) for ti, th in enumerate(ep["threads"]) for ci, _ in enumerate(th)]
    base = best

    def build(sel: list[tuple[int, int, int]]) -> dict[str, Any]:
        keep = set(sel)
        eps = [{"threads": [[c for ci, c in enumerate(th) if (ei, ti, ci) in keep] for ti, th in enumerate(ep["threads"])]} for ei, ep in enumerate(base["epochs"])]
        return with_(base, epochs=eps)

    kept = ddmin(flat, lambda sel: bool(sel) and fails(build(sel)), budget)
    if kept and len(kept) < len(flat):
        best = build(kept)
    # 4. shrink the schedule and the fault list
    if best["policy"]["kind"] == "explicit":
        sw = best["policy"]["switches"]
        kept_sw = ddmin(sw, lambda ss: fails(with_(best, policy={"kind": "explicit", "switches": ss})), budget)
        best = with_(best, policy={"kind": "explicit", "switches": kept_sw})
    if best["faults"]:
        kept_f = ddmin(best["faults"], lambda fs: fails(with_(best, faults=fs)), budget)
        best = with_(best, faults=kept_f)
    # 5. shrink documents (blocks, then lines)
    for ei, ep in enumerate(best["epochs"]):
        for ti, th in enumerate(ep["threads"]):
            for ci, c in enumerate(th):
                keys = ["text"] if "text" in c else []
                for key in keys:

                    def test(txt: str, ei: int = ei, ti: int = ti, ci: int = ci, key: str = key) -> bool:
                        cand = copy.deepcopy(best)
                        cand["epochs"][ei]["threads"][ti][ci][key] = txt
                        return fails(cand)

                    new = shrink_text_lines(c[key], test, budget)
                    if new != c[key]:
                        best = copy.deepcopy(best)
                        best["epochs"][ei]["threads"][ti][ci][key] = new
    # 6. compaction: remove empty threads/epochs if the violation survives renumbering
    comp = with_(best, epochs=[{"threads": [th for th in ep["threads"] if th]} for ep in best["epochs"] if any(ep["threads"])])
    if comp != best and comp["epochs"] and fails(comp):
        best = comp
    return with_(best, minimised=True, minimise_evals=budget_evals - budget[0])


def canon_case(case: dict[str, Any]) -> str:
    return canon(case)
