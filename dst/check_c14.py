"""
C14 - in-place formatting never leaves a damaged or half-written file. Engine B.

A run = one seeded workload (scratch tree + one invocation) + a fault-free baseline + a complete
single-fault sweep over every intercepted operation of that invocation (crash before / after,
torn write then crash, every legal errno one-shot and sticky, partial-write errno, short
read/write) + seeded 2-3 fault sequences + legal-knob variants (chunking, EINTR, buffer sizes).
The invariant is evaluated on the real tree after every mutating operation and on the surviving
tree; then the invocation is re-run fault-free on the surviving tree (bounded liveness after
faults stop).
"""

from __future__ import annotations

import os
import random
import shutil
import tempfile
from typing import Any

from . import corpus, simproc
from .core import b2j, ddmin, digest, j2b, shrink_text_lines, sub_rng

CHECK = "C14"
CHUNK = 4
TIERS = {"quick": 320, "thorough": 4000}
WALL_CAP = {"quick": 420.0, "thorough": 3000.0}
DET_SAMPLE = {"quick": 24, "thorough": 200}
SAMPLE_EVERY = 101
SET_KEYS = ("triples", "shapes")
FORK_PER_RUN = True
RULE = (
    "evaluation = one faulted (or legal-knob) execution of an invocation on a fresh copy of the workload tree; "
    "per workload the sweep covers every intercepted operation k x every applicable fault kind. distinct_nontrivial = "
    "number of distinct (workload digest, fault plan) pairs whose fault actually fired (or whose legal knob actually "
    "produced a short/EINTR transfer)."
)
ASSUMPTIONS = [
    "process-death crash model (completed system calls survive; no power-loss / un-synced data loss)",
    "faults enter at Python's os/io boundary (no LD_PRELOAD/FUSE); uninstrumented write paths are observed by tree snapshots, not faulted",
    "tmpfs rename/mkdir/stat semantics stand for the target file system",
    "'complete new content' of a file = what the fault-free baseline run of the same invocation writes",
]
COMPONENTS = {
    "real": ["flowmark.cli.main / reformat_file(s) / reformat_text", "strif.atomic_output_file", "pathlib", "io.BufferedReader/Writer/TextIOWrapper", "kernel namespace operations on tmpfs"],
    "stub": ["process death (SimCrash + dead flag instead of kill -9; cross-validated against os._exit in thorough tier)", "raw file read/write/close (SimRaw over FileIO)", "stdin/stdout pipes", "strif uid PRNG (seeded)"],
}

SCRATCH_BASE = "/dev/shm" if os.path.isdir("/dev/shm") and os.access("/dev/shm", os.W_OK) else tempfile.gettempdir()


# ---------------------------------------------------------------------------------------------
# workload


def _opts_argv(rng: random.Random, o: dict[str, Any]) -> list[str]:
    a: list[str] = []
    if o["width"] != 88 or rng.random() < 0.2:
        a += [rng.choice(["-w", "--width"]), str(o["width"])]
    for name, short in (("plaintext", "-p"), ("semantic", "-s"), ("cleanups", "-c"), ("smartquotes", None), ("ellipses", None)):
        if o[name]:
            a.append(short if short and rng.random() < 0.5 else "--" + name)
    if o["list_spacing"] != "preserve" or rng.random() < 0.1:
        a += ["--list-spacing", o["list_spacing"]]
    return a


def gen_case(run_seed: int, tier: str) -> dict[str, Any]:
    w = sub_rng(run_seed, "workload")
    tree: dict[str, Any] = {}
    docs: list[str] = []
    ndocs = w.choice([1, 1, 1, 2, 2, 3, 4]) if w.random() < 0.96 else w.randint(6, 10)
    names = ["a.md", "b.md", "notes.md", "docs/c.md", "docs/sub/d.md", "README.md", "docs/e.md", "docs/sub/deep/er/f.md", "g.md", "h.md"]
    w.shuffle(names)
    if w.random() < 0.03:
        names[0] = "L" * 236 + ".md"  # name + temp suffix exceeds NAME_MAX
    elif w.random() < 0.05:
        names[0] = "sp ace \u00fc.md"
    for name in names[:ndocs]:
        r = w.random()
        if r < 0.08:
            data = b""
        elif r < 0.16:
            data = b"caf\xe9 is not utf-8 \xff\xfe\n\n- x\n"
        elif r < 0.26:
            data = corpus.gen_doc(w, w.randint(1, 4)).replace("\n", "\r\n").encode()
        elif r < 0.32:
            data = ("# Tiny\n").encode()
        elif r < 0.36:
            data = corpus.gen_big_doc(w, w.choice([70, 140])).encode()  # several buffer-sized raw writes
        elif r < 0.37 and tier == "thorough":
            data = corpus.gen_big_doc(w, 1200).encode()  # above 1 MiB (thorough tier only: every execution costs 0.3 s)
        else:
            data = corpus.gen_doc(w, w.randint(1, 6)).encode()
        tree[name] = {"f": b2j(data)}
        docs.append(name)
    # bystanders and stale artefacts
    if w.random() < 0.6:
        tree["keep.txt"] = {"f": b2j(b"bystander " + corpus.sentence(w).encode())}
    if w.random() < 0.3:
        tree["docs/data.bin"] = {"f": b2j(bytes(w.randrange(256) for _ in range(40)))}
    if w.random() < 0.25:
        tree[docs[0] + ".orig"] = {"f": b2j(b"stale backup\n")}
    if w.random() < 0.2:
        tree[docs[0] + "zzzz9999.partial"] = {"f": b2j(b"stale partial\n")}
    if w.random() < 0.15 and len(docs) >= 1:
        tree["link.md"] = {"l": docs[0]}
    if w.random() < 0.12:
        tree["hard.md"] = {"hl": docs[0]}  # second name of the same inode
    envr = sub_rng(run_seed, "environment")
    low_disk = envr.random() < 0.08
    if envr.random() < 0.15:
        # modification times far in the past / in the future (mtime-based shortcuts)
        tree[docs[0]] = dict(tree[docs[0]], mtime=envr.choice([946684800, 4102444800, 1]))
    if envr.random() < 0.12:
        tree[docs[0]] = dict(tree[docs[0]], xattr=1)  # the file carries user.* extended attributes
    if envr.random() < 0.15:
        tree[docs[0]] = dict(tree[docs[0]], mode=envr.choice([0o444, 0o400, 0o755, 0o2664, 0o600]))  # permission bits
    if envr.random() < 0.06:
        # the file is a mount point (a single file bind-mounted into a container): another
        # st_dev than its directory; rename of/over it and unlink fail with EBUSY
        tree[docs[0]] = dict(tree[docs[0]], mnt=1)
    if envr.random() < 0.05 and "/" in docs[0]:
        # the file is also reachable through a symlinked parent directory
        tree["ldir"] = {"l": os.path.dirname(docs[0])}
    # the environment is an input too: variables the code under test reads (found in its source)
    # are set in some workloads - a directory on another device for names that look like a place,
    # a switch value otherwise
    env_spec: dict[str, str] = {}
    names_env = env_names()
    ev = sub_rng(run_seed, "env")
    if names_env and ev.random() < 0.35:
        for n_ in ev.sample(names_env, ev.randint(1, min(3, len(names_env)))):
            env_spec[n_] = "dir" if any(t in n_.upper() for t in ("DIR", "TMP", "TEMP", "PATH", "CACHE", "HOME")) else ev.choice(["1", "0", "true", ""])
    ident = sub_rng(run_seed, "identity")
    euid = ident.choice([None] * 5 + [0, 1000, 65534])
    if euid is not None and ident.random() < 0.6:
        # the process is (as far as it can tell) neither root nor the owner of this file
        tree[docs[0]] = dict(tree[docs[0]], own=ident.choice([1234, 1000, 65534]))

    opts = corpus.gen_options(w)
    if w.random() < 0.85:
        opts["plaintext"] = False
    mode = w.choices(
        ["inplace", "inplace_nobackup", "auto", "stdout", "stdin_o", "api_inplace", "api_inplace_nobackup", "api_output", "api_files_inplace"],
        [22, 16, 16, 8, 10, 8, 6, 8, 6],
    )[0]
    argkind = w.choices(["files", "dir", "glob", "link"], [70, 15, 8, 7])[0]
    inv: dict[str, Any] = {"mode": mode}
    files = list(docs)
    w.shuffle(files)
    files = files[: w.randint(1, len(files))]
    if "ldir" in tree and w.random() < 0.7:
        files = ["ldir/" + os.path.basename(docs[0])]
    if argkind == "link" and "link.md" in tree:
        files = ["link.md"]
    if mode in ("inplace", "inplace_nobackup", "auto", "stdout"):
        if argkind == "dir":
            args = [w.choice([".", "docs"]) if any(d.startswith("docs/") for d in docs) else "."]
        elif argkind == "glob":
            args = [w.choice(["*.md", "**/*.md"])]
        else:
            args = files
        flags = {"inplace": [w.choice(["-i", "--inplace"])], "inplace_nobackup": ["-i", "--nobackup"], "auto": ["--auto"], "stdout": []}[mode]
        o_argv = _opts_argv(w, opts)
        if mode == "auto":
            o_argv = [x for x in o_argv if x not in ("-p", "--plaintext")]
            opts = dict(opts, plaintext=False)
        parts = [flags, o_argv]
        if w.random() < 0.5:
            parts = [o_argv, flags]
        inv["flags_argv"] = [x for part in parts for x in part]
        if mode == "stdout" and w.random() < 0.4:
            inv["flags_argv"] = ["-o", "-"] + inv["flags_argv"]
        inv["args"] = args
        inv["argv"] = inv["flags_argv"] + args
    elif mode == "stdin_o":
        out = w.choice(["out.md", "newdir/out.md", docs[0]])
        inv["argv"] = ["-o", out] + _opts_argv(w, opts) + ["-"]
        src0 = tree.get(files[0]) or tree[docs[0]]  # (files[0] may be an alias path through the symlinked parent)
        inv["stdin"] = src0["f"] if "f" in src0 else b2j(b"# x\n")
        inv["output"] = out
    elif mode in ("api_inplace", "api_inplace_nobackup"):
        inv["api"] = {"fn": "reformat_file", "path": files[0], "output": None, "inplace": True, "nobackup": mode.endswith("nobackup"), "opts": opts}
    elif mode == "api_output":
        out = w.choice(["out.md", "deep/er/out.md", docs[0]])
        inv["api"] = {"fn": "reformat_file", "path": files[0], "output": out, "inplace": False, "nobackup": False, "opts": opts}
        inv["output"] = out
    else:
        inv["api"] = {"fn": "reformat_files", "files": files, "output": None, "inplace": True, "nobackup": w.random() < 0.5, "opts": opts}
    inplace = mode in ("inplace", "inplace_nobackup", "auto", "api_inplace", "api_inplace_nobackup", "api_files_inplace")
    backup = mode in ("inplace", "api_inplace") or (mode == "api_files_inplace" and not inv["api"]["nobackup"])
    k = sub_rng(run_seed, "knobs")
    return {
        "check": CHECK,
        "run_seed": run_seed,
        "tier": tier,
        "tree": tree,
        "inv": inv,
        "inplace": inplace,
        "backup": backup,
        "uid_seed": k.getrandbits(32),
        "euid": euid,
        "low_disk": low_disk,
        "env": env_spec,
        "sweep_seed": k.getrandbits(32),
        # some workloads start from files that are already formatted for this very invocation
        # (the "nothing to change" path of an implementation is a path too)
        "prefmt": inplace and k.random() < 0.2,
        # I/O behaviour during the faulted executions: with "thirds" every raw transfer is short, so
        # the temp file is written by several raw writes and crashes / errors land between them
        "sweep_chunking": k.choice(["none", "none", "none", "thirds"]),
    }


# ---------------------------------------------------------------------------------------------
# executing one (possibly faulted) invocation on a fresh copy of the tree


class Env:
    def __init__(self) -> None:
        self.run: Any = None
        self.base: str = ""

    def setup(self) -> None:
        import flowmark
        import flowmark.cli  # noqa: F401
        import flowmark.file_resolver  # noqa: F401

        from .core import repo_src

        assert os.path.realpath(flowmark.__file__).startswith(repo_src() + os.sep), flowmark.__file__
        # no flowmark config / ignore file may sit above the scratch trees
        d = os.path.realpath(SCRATCH_BASE)
        while True:
            for n in (".flowmark.toml", "flowmark.toml", "pyproject.toml", ".flowmarkignore", ".gitignore"):
                assert not os.path.exists(os.path.join(d, n)), f"{n} above scratch base {d}"
            if os.path.dirname(d) == d:
                break
            d = os.path.dirname(d)

    def close(self) -> None:
        pass

    def info(self) -> dict[str, Any]:
        return {"scratch_base": SCRATCH_BASE}


def _tree_bytes(tree: dict[str, Any]) -> dict[str, Any]:
    out: dict[str, Any] = {}
    for rel, ent in tree.items():
        if "f" in ent:
            out[rel] = dict(ent, f=j2b(ent["f"]))
        else:
            out[rel] = ent
    return out


def is_aux(rel: str) -> bool:
    return rel.endswith(".orig") or rel.endswith(".partial")


def make_fn(inv: dict[str, Any]) -> Any:
    if "argv" in inv:
        argv = list(inv["argv"])

        def fn() -> Any:
            from flowmark.cli import main

            return main(argv)

        return fn
    api = inv["api"]

    def fn2() -> Any:
        import flowmark
        from flowmark.formats.flowmark_markdown import ListSpacing
        from flowmark.reformat_api import reformat_files

        o = dict(api["opts"])
        o["list_spacing"] = ListSpacing(o["list_spacing"])
        if api["fn"] == "reformat_file":
            flowmark.reformat_file(api["path"], api["output"], inplace=api["inplace"], nobackup=api["nobackup"], **o)
        else:
            reformat_files(api["files"], api["output"], inplace=api["inplace"], nobackup=api["nobackup"], **o)
        return 0

    return fn2


class Exec:
    """One execution of the invocation in a fresh tree, with observation."""

    def __init__(self, case: dict[str, Any], root: str, faults: list[dict[str, Any]], knobs: dict[str, Any], new: dict[str, bytes | None] | None) -> None:
        self.case, self.root, self.new = case, root, new
        self.tree = _tree_bytes(case["tree"])
        if os.path.isdir(root):
            shutil.rmtree(root)
        os.makedirs(root)
        simproc.build_tree(root, self.tree)
        self.docs: dict[str, tuple[bytes | None, int | None]] = {}
        self.links: dict[str, str] = {}
        self.unconstrained_links = False
        inv = case["inv"]
        named = set(inv.get("argv") or []) | set((inv.get("api") or {}).get("files") or []) | {(inv.get("api") or {}).get("path")}
        for rel in self.tree:
            if is_aux(rel):
                continue
            if "l" in self.tree[rel] and rel not in named:
                # a symlink that is not itself an argument is a bystander (only the link must
                # stay) - unless a directory/glob argument may discover and format it in place,
                # which legitimately replaces the link: then it is left unconstrained
                if all(a in self.tree and "d" not in self.tree[a] for a in (inv.get("args") or [])):
                    self.links[rel] = self.tree[rel]["l"]
                else:
                    self.unconstrained_links = True
                continue
            full = os.path.join(root, rel)
            kind = simproc.lstat_kind(full)
            if kind == "dir":
                continue
            out_rel0 = inv.get("output")
            if kind == "link" and out_rel0 and os.path.realpath(full) == os.path.realpath(os.path.join(root, out_rel0)):
                continue  # a link to the output path: its content legitimately changes with the output
            try:
                ino = simproc._REAL["lstat"](full).st_ino
            except OSError:
                ino = None
            self.docs[rel] = (simproc.read_bytes(full), ino)
        self.violation: dict[str, Any] | None = None
        self.n_obs = 0
        self._inodes: dict[int, set[str]] | None = None
        self.probes: dict[str, int] = {}
        self.ip = simproc.Interposer(root, faults, knobs, observer=self._observe if new is not None else None)

    def run(self) -> simproc.ProcResult:
        stdin = j2b(self.case["inv"].get("stdin")) or b""
        res = simproc.run_process(self.ip, make_fn(self.case["inv"]), stdin, cwd=self.root, uid_seed=self.case["uid_seed"], env=getattr(self, "env", None))
        if self.new is not None:
            self.check_state("end" if not res.crashed else "post-crash", None)
        return res

    def _observe(self, o: simproc.Op) -> None:
        self.check_state("op", o)

    def _inode_map(self) -> dict[int, set[str]]:
        """inode -> document names that reach it (directly, through a link, or as the backup)."""
        m: dict[int, set[str]] = {}
        for rel in self.docs:
            full = os.path.join(self.root, rel)
            for p in (full, full + ".orig"):
                for fn in ("lstat", "stat"):
                    try:
                        m.setdefault(simproc._REAL[fn](p).st_ino, set()).add(rel)
                    except OSError:
                        pass
        return m

    def _probe(self, name: str) -> None:
        self.probes[name] = self.probes.get(name, 0) + 1

    def check_state(self, when: str, o: simproc.Op | None) -> None:
        if self.violation is not None or self.new is None:
            return
        self.n_obs += 1
        case = self.case
        out_rel = case["inv"].get("output")
        # A data write through a descriptor changes the one inode it is open on and nothing else,
        # and the state after the previous operation has been verified: only names on that
        # inode need to be looked at again (exact, not a heuristic; it makes byte-wise chunking
        # of large documents affordable).
        wino = o.ino if (o is not None and o.op in ("write", "os-write") and when == "op") else None
        only: set[str] | None = None
        if wino and self._inodes is not None:
            only = self._inodes.get(wino, set())
            if not only and not (case["inv"].get("output") and case["inv"].get("output") not in self.docs):
                return
        else:
            wino = None
        for rel, target in ({} if wino else self.links).items():
            full = os.path.join(self.root, rel)
            try:
                now = simproc._REAL["readlink"](full)
            except OSError:
                now = None
            if now != target:
                self.violation = {"kind": "bystander-link-changed", "path": rel, "when": when, "at_op": o.rec() if o is not None else None, "now": now}
                return
        for rel, (old, ino0) in self.docs.items():
            full = os.path.join(self.root, rel)
            if only is not None and rel not in only:
                continue
            cur = simproc.read_bytes(full)
            new = self.new.get(rel, old)
            kind = None
            try:
                ino = simproc._REAL["lstat"](full).st_ino
            except OSError:
                ino = None
            replaced = ino != ino0
            if not case["inplace"] and rel != out_rel:
                # input files and bystanders of a not-in-place run are never touched
                if cur != old or replaced:
                    kind = "input-touched"
            elif cur is None:
                if case["backup"] and simproc.read_bytes(full + ".orig") == old:
                    self._probe("target absent, .orig holds old (backup window)")
                else:
                    kind = "absent-no-backup"
            elif cur == old or cur == new:
                if replaced and case["backup"] and case["inplace"] and rel != out_rel:
                    if simproc.read_bytes(full + ".orig") != old:
                        kind = "backup-missing"
            else:
                if cur == b"" and old:
                    kind = "damaged-empty"
                elif new is not None and new.startswith(cur):
                    kind = "damaged-partial"
                elif old is not None and old.startswith(cur):
                    kind = "damaged-truncated-old"
                else:
                    kind = "damaged-mixed"
            if kind:
                self.violation = {
                    "kind": kind,
                    "path": rel,
                    "when": when,
                    "at_op": o.rec() if o is not None else None,
                    "cur": b2j(cur[:200] if cur else cur),
                    "old_len": None if old is None else len(old),
                    "new_len": None if new is None else len(new),
                    "cur_len": None if cur is None else len(cur),
                }
                return
        if only is None:
            self._inodes = self._inode_map()
        # the -o output path when it did not exist before
        if out_rel and out_rel not in self.docs:
            cur = simproc.read_bytes(os.path.join(self.root, out_rel))
            new = self.new.get(out_rel)
            if cur is not None and cur != new:
                self.violation = {"kind": "damaged-partial" if (new or b"").startswith(cur) else "damaged-mixed", "path": out_rel, "when": when, "at_op": o.rec() if o is not None else None, "cur_len": len(cur), "new_len": None if new is None else len(new)}


def _solo_case(case: dict[str, Any], rel: str) -> dict[str, Any] | None:
    """The same invocation style applied to `rel` alone (None when `rel` cannot be a target)."""
    inv = case["inv"]
    if "l" in case["tree"][rel]:
        return None
    if "argv" in inv:
        if "flags_argv" not in inv:
            return None
        return dict(case, inv=dict(inv, argv=inv["flags_argv"] + [rel], args=[rel]))
    api = inv["api"]
    if api["fn"] == "reformat_file":
        return dict(case, inv=dict(inv, api=dict(api, path=rel)))
    return dict(case, inv=dict(inv, api=dict(api, files=[rel])))


def final_docs(root: str, tree: dict[str, Any], extra: list[str]) -> dict[str, bytes | None]:
    out: dict[str, bytes | None] = {}
    for rel in list(tree) + extra:
        full = os.path.join(root, rel)
        if simproc.lstat_kind(full) == "dir":
            continue
        out[rel] = simproc.read_bytes(full)
    return out


def op_class(o: simproc.Op) -> str:
    return o.op


def enumerate_single_faults(log: list[simproc.Op], rng: random.Random, tier: str) -> list[list[dict[str, Any]]]:
    """Complete single-fault sweep over the baseline's operations."""
    plans: list[list[dict[str, Any]]] = []
    for o in log:
        c = o.op
        k = o.k
        plans.append([{"at": k, "kind": "crash_before"}])
        if c in simproc.MUTATING or c.startswith("close"):
            plans.append([{"at": k, "kind": "crash_after"}])
        if c in ("write", "os-write"):
            n = int(o.extra.get("n", 0))
            offs = sorted({0, 1, n // 2, max(0, n - 1)})
            if tier == "quick" and len(offs) > 2:
                offs = sorted(rng.sample(offs, 2))
            for j in offs:
                if j < n or n == 0:
                    plans.append([{"at": k, "kind": "torn_crash", "bytes": j}])
            for e in simproc.ERRNOS[c if c in simproc.ERRNOS else "write"]:
                plans.append([{"at": k, "kind": "errno", "errno": e, "bytes": rng.choice([0, 0, 1, n // 2])}])
            plans.append([{"at": k, "kind": "errno", "errno": "ENOSPC", "bytes": n // 3, "sticky": True}])
            if n > 1:
                plans.append([{"at": k, "kind": "short_write", "bytes": rng.randrange(1, n)}])
        elif c in simproc.ERRNOS:
            errs = simproc.ERRNOS[c]
            if c == "stat" and tier == "quick":
                errs = errs[:1]
            for e in errs:
                plans.append([{"at": k, "kind": "errno", "errno": e}])
            if c in ("open-w", "mkdir", "replace"):
                plans.append([{"at": k, "kind": "errno", "errno": "ENOSPC", "sticky": True}])
        if c in ("read", "stdin.read"):
            n = int(o.extra.get("n", 0))
            if n > 1:
                plans.append([{"at": k, "kind": "short_read", "bytes": rng.choice([1, 2, max(1, n // 2)])}])
    return plans


LEGAL_KINDS = {"short_write", "short_read"}


def gen_knob_variants(rng: random.Random) -> list[dict[str, Any]]:
    out = []
    for _ in range(3):
        out.append({
            "bufsize": rng.choice([1, 7, 64, 4096, 8192, 65536]),
            "chunking": rng.choice(["none", "random", "random", "byte"]),
            "eintr": rng.choice([0.0, 0.1, 0.3]),
            "chunk_seed": rng.getrandbits(32),
            "listing": rng.choice(["shuffle", "reverse", "sorted", "native"]),
            "list_seed": rng.getrandbits(32),
        })
    return out


def run_case(env: Env, case: dict[str, Any], want_trace: bool = False) -> dict[str, Any]:
    outer = tempfile.mkdtemp(prefix="dst-c14-" + os.environ.get("VERIF_RUN_TAG", "x") + "-", dir=SCRATCH_BASE)
    scratch = os.path.join(outer, "s", "s")  # nested, so that a defective `..` resolution under test stays inside the scratch directory
    try:
        os.makedirs(scratch)
        return _run_case(env, case, scratch, want_trace)
    finally:
        shutil.rmtree(outer, ignore_errors=True)


_ENV_NAMES: list[str] | None = None


def env_names() -> list[str]:
    global _ENV_NAMES
    if _ENV_NAMES is None:
        from .core import repo_src

        _ENV_NAMES = simproc.discovered_env_names(repo_src())
    return _ENV_NAMES


def _full_knobs(case: dict[str, Any], knobs: dict[str, Any]) -> dict[str, Any]:
    """The execution's knobs plus the workload's environment seams (identity, disk, mounts)."""
    if case.get("euid") is not None:
        knobs = dict(knobs, euid=case["euid"])
    if case.get("low_disk"):
        knobs = dict(knobs, low_disk=True)
    mounts = [rel for rel, e in case["tree"].items() if e.get("mnt")]
    if mounts:
        knobs = dict(knobs, mounts=mounts)
    return knobs


def _exec_once(case: dict[str, Any], scratch: str, faults: list[dict[str, Any]], knobs: dict[str, Any], new: dict[str, bytes | None] | None) -> tuple[Exec, simproc.ProcResult]:
    knobs = _full_knobs(case, knobs)
    ex = Exec(case, os.path.join(scratch, "t"), faults, knobs, new)
    stage = None
    if case.get("env"):
        # "another device": the scratch tree is on /dev/shm, the system temp directory is not
        stage = tempfile.mkdtemp(prefix="dst-stage-" + os.environ.get("VERIF_RUN_TAG", "x") + "-", dir=tempfile.gettempdir())
        ex.env = {k_: (stage if v_ == "dir" else v_) for k_, v_ in case["env"].items()}
    try:
        res = ex.run()
    finally:
        if stage is not None:
            shutil.rmtree(stage, ignore_errors=True)
    return ex, res


def _run_case(env: Env, case: dict[str, Any], scratch: str, want_trace: bool) -> dict[str, Any]:
    if case.get("prefmt"):
        ex_p, _ = _exec_once(dict(case, prefmt=False), scratch, [], {"listing": "native"}, None)
        tree2 = dict(case["tree"])
        for rel, ent in case["tree"].items():
            if "f" in ent and not is_aux(rel):
                got = simproc.read_bytes(os.path.join(ex_p.root, rel))
                if got is not None:
                    tree2[rel] = dict(ent, f=b2j(got))
        case = dict(case, tree=tree2, prefmt=False)
    out_rel = case["inv"].get("output")
    extra = [out_rel] if out_rel else []
    counters: dict[str, Any] = {"workloads": 1, "mode": {case["inv"]["mode"]: 1}}
    # ---- baseline (fault free, default knobs): defines "complete new content"
    ex0, res0 = _exec_once(case, scratch, [], {"listing": "native"}, None)
    new = final_docs(ex0.root, ex0.tree, extra)
    base_tree = simproc.snapshot(ex0.root)
    # files the fault-free run rewrites (inode replaced): the targets a fault-free re-run must format
    base_rewritten: set[str] = set()
    for rel, (_, ino0) in ex0.docs.items():
        try:
            if simproc._REAL["lstat"](os.path.join(ex0.root, rel)).st_ino != ino0:
                base_rewritten.add(rel)
        except OSError:
            pass
    base_log = list(ex0.ip.log)
    K = len(base_log)
    base_exit, base_stdout = res0.exit, res0.stdout
    counters["baseline_ops"] = K
    counters["baseline_exit"] = {str(base_exit): 1}
    # "complete new content" of each document: what the same kind of invocation writes for that
    # file alone (the whole-run baseline may stop early at a file that fails, and a fault may make
    # discovery skip that file - the files after it then legitimately get formatted)
    new2: dict[str, bytes | None] = dict(new)
    early_violations: list[tuple[str, dict[str, Any], dict[str, Any]]] = []
    if case["inplace"]:
        for rel in list(ex0.docs):
            solo = _solo_case(case, rel)
            if solo is None:
                continue
            exs, res_s = _exec_once(solo, scratch, [], {"listing": "native"}, None)
            got = simproc.read_bytes(os.path.join(exs.root, rel))
            new[rel] = got
            write_stage_failed = any(o_.op in simproc.MUTATING and o_.outcome not in ("ok",) for o_ in exs.ip.log)
            if res_s.exit != 0 and "f" in case["tree"][rel] and not write_stage_failed:
                # "If reading, decoding or formatting fails nothing is modified" - fault-free form
                # (a run that got as far as writing and failed *there* - EBUSY on a mount-point
                # target - is not this clause's business: documents and bystanders are judged by
                # the old-or-new invariant, the names of left-over temporaries are unconstrained)
                before = {r: (e["f"] if "f" in e else e) for r, e in exs.tree.items()}
                after_t = {r: (ent[1] if ent[0] == "f" else {"l": ent[1]} if ent[0] == "l" else {"d": 1}) for r, ent in simproc.snapshot(exs.root).items() if ent[0] != "d"}
                before_t = {r: v for r, v in before.items() if not (isinstance(v, dict) and "d" in v)}
                before_t = {r: (simproc.read_bytes(os.path.join(exs.root, v["hl"])) if isinstance(v, dict) and "hl" in v else v) for r, v in before_t.items()}
                if after_t != before_t:
                    diffp = sorted(r for r in set(after_t) | set(before_t) if after_t.get(r) != before_t.get(r))
                    early_violations.append((f"C14/failed-format-modified-tree/{'inplace+backup' if case['backup'] else 'inplace'}", solo, {"why": "the invocation failed (exit != 0) on this file alone, yet the tree changed", "exit": res_s.exit, "changed_paths": diffp[:5], "stderr": res_s.stderr[-200:].decode("utf-8", "replace")}))
            # and what a re-run on that result must produce
            solo2 = dict(solo, tree={**solo["tree"], rel: dict(case["tree"][rel], f=b2j(got))}) if got is not None and "f" in case["tree"][rel] else solo
            exs2, _ = _exec_once(solo2, scratch, [], {"listing": "native"}, None)
            new2[rel] = simproc.read_bytes(os.path.join(exs2.root, rel))
        counters["solo_baselines"] = 2 * len(ex0.docs)

    violations: list[dict[str, Any]] = []
    seen_fp: set[str] = set()
    triples: set[str] = set()
    shapes: set[str] = set()
    n_exec = 0
    n_fired = 0
    n_obs = 0
    fires: dict[str, int] = {}
    probes: dict[str, int] = {}
    legal_fires: dict[str, int] = {}
    nontrivial_keys: set[str] = set()
    wl_digest = digest([case["tree"], case["inv"]], 12)
    shape = f"{case['inv']['mode']}/{len([r for r in case['tree'] if not is_aux(r)])}files"
    shapes.add(shape)

    def record_violation(fp: str, faults: list[dict[str, Any]], knobs: dict[str, Any], detail: dict[str, Any]) -> None:
        if fp in seen_fp:
            return
        seen_fp.add(fp)
        violations.append({"fingerprint": fp, "detail": detail, "case": dict(case, faults=faults, knobs=knobs)})

    for fp_e, solo_case, det in early_violations:
        if fp_e not in seen_fp:
            seen_fp.add(fp_e)
            violations.append({"fingerprint": fp_e, "detail": det, "case": dict(solo_case, faults=[], knobs={"listing": "native"})})

    def one(faults: list[dict[str, Any]], knobs: dict[str, Any], strict: bool) -> None:
        nonlocal n_exec, n_fired, n_obs
        ex, res = _exec_once(case, scratch, faults, knobs, new)
        n_exec += 1
        n_obs += ex.n_obs
        for name, c in ex.probes.items():
            probes[name] = probes.get(name, 0) + c
        for name, c in ex.ip.legal_fires.items():
            legal_fires[name] = legal_fires.get(name, 0) + c
        fired = ex.ip.fired
        if fired or ex.ip.legal_fires:
            n_fired += 1
            nontrivial_keys.add(digest([wl_digest, faults, knobs], 12))
        for f in fired:
            key = f"{f['kind']}{':' + f['errno'] if f.get('errno') else ''}@{f['op']}"
            fires[key] = fires.get(key, 0) + 1
            triples.add(f"{shape}|{f['op']}|{f['kind']}")
        mode_cls = "inplace+backup" if case["backup"] else ("inplace" if case["inplace"] else ("output" if out_rel else "stdout"))
        if ex.violation is not None:
            record_violation(f"C14/{ex.violation['kind']}/{mode_cls}", faults, knobs, {"violation": ex.violation, "fired": fired, "exit": res.exit})
            return
        # "If reading ... fails nothing is modified": every fired fault is a read-side error on one
        # document -> that document keeps inode and bytes, and its .orig is neither created nor changed
        rd = [f for f in fired if f["kind"] == "errno" and f["op"] in ("open-r", "read", "close-r") and f["paths"] and f["paths"][0] in ex.docs]
        if fired and len(rd) == len(fired) and len({f["paths"][0] for f in rd}) == 1 and not any(f.get("sticky") for f in faults) and not any(
            o.op in simproc.MUTATING and o.k < rd[0]["at"] and any(pth.startswith(rd[0]["paths"][0]) for pth in o.paths) for o in ex.ip.log
        ):
            # (only when the failing read comes before anything was written for that document: a
            # read-back after a completed write is a different matter)
            relp = rd[0]["paths"][0]
            full = os.path.join(ex.root, relp)
            old_b, ino0 = ex.docs[relp]
            try:
                ino_now = simproc._REAL["lstat"](full).st_ino
            except OSError:
                ino_now = None
            orig_before = ex.tree.get(relp + ".orig", {}).get("f") if relp + ".orig" in ex.tree else None
            orig_now = simproc.read_bytes(full + ".orig")
            if simproc.read_bytes(full) != old_b or ino_now != ino0 or orig_now != orig_before:
                record_violation(f"C14/read-failure-modified/{mode_cls}", faults, knobs, {"path": relp, "content_same": simproc.read_bytes(full) == old_b, "inode_same": ino_now == ino0, "orig_before": b2j(orig_before), "orig_now": b2j(orig_now), "fired": fired})
                return
        if strict:
            # legal behaviour of the environment only: the run must be indistinguishable from the baseline
            tree_now = simproc.snapshot(ex.root)
            same = _tree_equal(tree_now, base_tree) and res.exit == base_exit and res.stdout == base_stdout
            if not same:
                record_violation(f"C14/legal-io-changes-result/{mode_cls}", faults, knobs, {"exit": res.exit, "baseline_exit": base_exit, "stdout_equal": res.stdout == base_stdout, "tree_diff": _tree_diff(tree_now, base_tree), "legal": ex.ip.legal_fires, "fired": fired})
            return
        # ---- after faults stop: re-run fault-free on the surviving tree
        if fired:
            surv = final_docs(ex.root, ex.tree, extra)
            ip2 = simproc.Interposer(ex.root, [], {"listing": "native"})
            stdin = j2b(case["inv"].get("stdin")) or b""
            res2 = simproc.run_process(ip2, make_fn(case["inv"]), stdin, cwd=ex.root, uid_seed=case["uid_seed"] + 1)
            after = final_docs(ex.root, ex.tree, extra)
            absent_inputs = [rel for rel in ex.docs if surv.get(rel) is None and rel != out_rel]
            if any(r.endswith(".partial") for r in simproc.snapshot(ex.root)):
                self_probe = "re-run with stale .partial present"
                probes[self_probe] = probes.get(self_probe, 0) + 1
            if ex.unconstrained_links:
                # a discovered symlink may legitimately have been replaced by a regular file under
                # the fault; what the re-run then resolves is no longer comparable with the baseline
                probes["re-run not judged: discoverable symlink in tree"] = probes.get("re-run not judged: discoverable symlink in tree", 0) + 1
            elif absent_inputs:
                probes["re-run with target absent (backup window crash)"] = probes.get("re-run with target absent (backup window crash)", 0) + 1
            elif base_exit == 0:
                bad = None
                if res2.exit != 0:
                    bad = {"why": "re-run after faults stopped did not exit 0", "exit": res2.exit, "exc": res2.exc, "stderr": res2.stderr[-300:].decode("utf-8", "replace")}
                else:
                    for rel in ex.docs:
                        if rel not in base_rewritten or "f" not in case["tree"].get(rel, {}):
                            continue  # (for symlinks / hard links the solo baselines are not defined)
                        cur, exp = surv.get(rel), after.get(rel)
                        if cur == ex.docs[rel][0]:
                            want = new.get(rel)
                        elif cur == new.get(rel):
                            want = new2.get(rel)
                        else:
                            continue
                        if exp != want and not (rel == out_rel):
                            bad = {"why": "re-run left a file that is not the format of its surviving content", "path": rel}
                            break
                if bad:
                    record_violation(f"C14/recovery-failed/{mode_cls}", faults, knobs, {"recovery": bad, "fired": fired})

    xval = {"compared": 0, "mismatch": 0}

    def cross_validate(faults: list[dict[str, Any]]) -> None:
        """Same crash plan in a forked process that really dies (os._exit) vs. the SimCrash stub."""
        ex_a, res_a = _exec_once(case, scratch, faults, {"listing": "native"}, None)
        if not res_a.crashed:
            return
        tree_a = _norm_tree(simproc.snapshot(ex_a.root))
        root_b = os.path.join(scratch, "t")  # same path, rebuilt by Exec
        pid = os.fork()
        if pid == 0:
            try:
                exb = Exec(case, root_b, faults, _full_knobs(case, {"listing": "native", "real_exit": True}), None)
                if case.get("env"):
                    stage_b = tempfile.mkdtemp(prefix="dst-stage-" + os.environ.get("VERIF_RUN_TAG", "x") + "-", dir=tempfile.gettempdir())
                    exb.env = {k_: (stage_b if v_ == "dir" else v_) for k_, v_ in case["env"].items()}
                exb.run()
            finally:
                os._exit(0)
        _, status = os.waitpid(pid, 0)
        tree_b = _norm_tree(simproc.snapshot(root_b))
        xval["compared"] += 1
        if tree_a != tree_b or os.waitstatus_to_exitcode(status) != 137:
            xval["mismatch"] += 1
            xval.setdefault("first", {"faults": faults, "status": status, "diff": sorted(k for k in set(tree_a) | set(tree_b) if tree_a.get(k) != tree_b.get(k))[:5]})

    if "faults" in case:
        # explicit replay of one faulted execution
        strict = bool(case["faults"]) and all(f["kind"] in LEGAL_KINDS for f in case["faults"]) or (not case["faults"] and bool(case.get("knobs")))
        one(case["faults"], case.get("knobs") or {"listing": "native"}, strict)
    else:
        rng = random.Random(case["sweep_seed"])
        tier = case.get("tier", "quick")
        sweep_knobs: dict[str, Any] = {"listing": "native"}
        if case.get("sweep_chunking", "none") != "none":
            # the sweep is enumerated over the operations of a baseline taken with the same I/O behaviour
            sweep_knobs["chunking"] = case["sweep_chunking"]
            exb, _ = _exec_once(case, scratch, [], sweep_knobs, None)
            base_log = list(exb.ip.log)
            K = len(base_log)
            counters["baseline_ops"] = K
        plans = enumerate_single_faults(base_log, rng, tier)
        cap = 700 if tier == "quick" else 2500
        if any("f" in e and len(j2b(e["f"]) or b"") > 400_000 for e in case["tree"].values()):
            cap = min(cap, 400)  # every execution over a > 1 MiB document costs about 0.3 s (much more on a busy machine)
        if len(plans) > cap:
            # a very long operation sequence (large file written in many pieces): keep every plan
            # on non-data operations and a seeded sample of the data-operation plans
            data_ops = {"read", "write", "os-write", "stdin.read", "stdout.write"}
            keep = [p for p in plans if base_log[p[0]["at"]].op not in data_ops]
            rest = [p for p in plans if base_log[p[0]["at"]].op in data_ops]
            plans = keep + rng.sample(rest, max(0, min(len(rest), cap - len(keep))))
            counters["sweeps_sampled_not_exhaustive"] = 1
        for plan in plans:
            one(plan, dict(sweep_knobs), all(f["kind"] in LEGAL_KINDS for f in plan))
        # seeded sequences of 2-3 faults
        singles = enumerate_single_faults(base_log, rng, tier)
        nonfatal = [p[0] for p in singles if p[0]["kind"] in ("errno", "short_write", "short_read")]
        anyf = [p[0] for p in singles]
        for _ in range(min(12, K)):
            if not nonfatal:
                break
            n = rng.choice([2, 2, 3])
            seq = [dict(rng.choice(nonfatal)) for _ in range(n - 1)] + [dict(rng.choice(anyf))]
            ats = sorted({f["at"] for f in seq})
            if len(ats) < len(seq):
                continue
            seq.sort(key=lambda f: f["at"])
            one(seq, dict(sweep_knobs), False)
        # legal-knob variants: chunked transfers, EINTR, buffer sizes, listing order
        for kn in gen_knob_variants(rng):
            one([], kn, True)
        # cross-validation of the process-death stub against a process that really dies
        crash_plans = [p for p in enumerate_single_faults(base_log, rng, tier) if p[0]["kind"] in ("crash_before", "crash_after", "torn_crash") and base_log[p[0]["at"]].op in simproc.MUTATING]
        for plan in rng.sample(crash_plans, min(len(crash_plans), 2 if tier == "quick" else 8)):
            cross_validate(plan)
    counters.update({
        "executions": n_exec,
        "executions_with_fired_fault": n_fired,
        "observation_points": n_obs,
        "fires": fires,
        "legal_fires": legal_fires,
        "probes": probes,
        "crash_stub_vs_real_exit_compared": xval["compared"],
        "crash_stub_vs_real_exit_mismatch": xval["mismatch"],
    })
    if xval["mismatch"]:
        return {"verdict": "harness_error", "trace": "SimCrash stub and real os._exit disagree: " + repr(xval.get("first")), "digest": "", "counters": counters}
    log_digest = digest([[o.rec() for o in base_log], n_exec, n_fired, sorted(fires.items()), sorted(probes.items()), [v["fingerprint"] for v in violations], res0.exit, digest(res0.stdout)], 24)
    res: dict[str, Any] = {
        "verdict": "violation" if violations else "ok",
        "fingerprint": violations[0]["fingerprint"] if violations else "",
        "detail": violations[0]["detail"] if violations else {},
        "violations": violations,
        "digest": log_digest,
        "nontrivial": n_fired > 0,
        "distinct_key": wl_digest,
        "nontrivial_count": len(nontrivial_keys),
        "counters": counters,
        "triples": sorted(triples),
        "shapes": sorted(shapes),
    }
    if want_trace:
        res["baseline_oplog"] = [o.rec() for o in base_log]
    return res


def _tree_equal(a: dict[str, Any], b: dict[str, Any]) -> bool:
    return not _tree_diff(a, b)


def _norm_tree(t: dict[str, Any]) -> dict[str, Any]:
    out = {}
    for rel, ent in t.items():
        if rel.endswith(".partial"):
            continue
        out[rel] = ent[:2] if ent[0] == "f" else ent
    return out


def _tree_diff(a: dict[str, Any], b: dict[str, Any]) -> list[str]:
    na, nb = _norm_tree(a), _norm_tree(b)
    return sorted(rel for rel in set(na) | set(nb) if na.get(rel) != nb.get(rel))[:10]


def sample_of(case: dict[str, Any], res: dict[str, Any]) -> dict[str, Any]:
    return {
        "run_seed": case["run_seed"],
        "tree": {rel: (("file", len(j2b(ent["f"]) or b"")) if "f" in ent else ent) for rel, ent in case["tree"].items()},
        "invocation": case["inv"].get("argv") or case["inv"].get("api", {}).get("fn"),
        "mode": case["inv"]["mode"],
        "baseline_ops": res["counters"].get("baseline_ops"),
        "executions": res["counters"].get("executions"),
        "fires": res["counters"].get("fires"),
    }


def evidence_extras(counters: dict[str, Any], sets: dict[str, set[str]], runs: dict[int, dict[str, Any]]) -> dict[str, Any]:
    n_exec = counters.get("executions", 0)
    return {
        "evaluations": n_exec,
        "workloads": counters.get("workloads", 0),
        "distinct_nontrivial": sum(m.get("nontrivial_count", 0) for m in runs.values()),
        "logical_time_fs_operations_in_baselines": counters.get("baseline_ops", 0),
        "fault_fires_by_kind_and_op": counters.get("fires", {}),
        "legal_io_fires": counters.get("legal_fires", {}),
        "reach_probes": counters.get("probes", {}),
        "single_fault_sweep_exhaustive_per_workload": counters.get("sweeps_sampled_not_exhaustive", 0) == 0,
        "workloads_with_sampled_sweep": counters.get("sweeps_sampled_not_exhaustive", 0),
        "crash_stub_cross_validated_against_real_process_exit": {"compared": counters.get("crash_stub_vs_real_exit_compared", 0), "mismatches": counters.get("crash_stub_vs_real_exit_mismatch", 0)},
    }


# ---------------------------------------------------------------------------------------------
# minimisation


def minimise(env: Env, case: dict[str, Any], fp: str, budget_evals: int = 300) -> dict[str, Any]:
    import copy

    budget = [budget_evals]

    import time as _time

    deadline = _time.time() + float(os.environ.get("VERIF_MINIMISE_BUDGET_S", "150"))

    def fails(c: dict[str, Any]) -> bool:
        if budget[0] <= 0 or _time.time() > deadline:
            return False  # out of evaluations or wall-clock: keep the best case found so far
        budget[0] -= 1
        r = env.run(c)
        return r["verdict"] == "violation" and any(v["fingerprint"] == fp for v in r.get("violations", []))

    best = case
    if "faults" not in best:
        return best
    if best.get("knobs") and best["knobs"] != {"listing": "native"}:
        cand = dict(best, knobs={"listing": "native"})
        if fails(cand):
            best = cand
    if best["faults"]:
        kept = ddmin(best["faults"], lambda fs: fails(dict(best, faults=fs)), budget)
        best = dict(best, faults=kept)
    # drop files that are not arguments
    rels = list(best["tree"])
    argv_words = set(best["inv"].get("argv") or []) | set((best["inv"].get("api") or {}).get("files") or []) | {(best["inv"].get("api") or {}).get("path")}
    droppable = [r for r in rels if r not in argv_words]
    if droppable:
        kept_d = ddmin(droppable, lambda ds: fails(dict(best, tree={r: e for r, e in best["tree"].items() if r in ds or r not in droppable})), budget)
        best = dict(best, tree={r: e for r, e in best["tree"].items() if r in kept_d or r not in droppable})
    # shrink documents (fault indices refer to operations, whose count does not depend on size
    # for small files, so this usually keeps the same fault site)
    for rel, ent in list(best["tree"].items()):
        if "f" not in ent or "t" not in ent["f"]:
            continue

        def test(txt: str, rel: str = rel) -> bool:
            c = copy.deepcopy(best)
            c["tree"][rel] = {"f": {"t": txt}}
            return fails(c)

        newt = shrink_text_lines(ent["f"]["t"], test, budget)
        if newt != ent["f"]["t"]:
            best = copy.deepcopy(best)
            best["tree"][rel] = {"f": {"t": newt}}
    return dict(best, minimised=True, minimise_evals=budget_evals - budget[0])
