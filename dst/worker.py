"""
Worker process: runs an index range of one check and streams one JSON line per run.

Started by dst/coordinator.py as a fresh interpreter (`python -m dst.worker ...`). Installs the
seams first, then imports flowmark from $VERIF_REPO_SRC. A worker's behaviour depends only on the
indices it is given (and the code under test), never on how many workers exist.
"""

from __future__ import annotations

import argparse
import faulthandler
import importlib
import json
import os
import sys
import time
import traceback
from typing import Any

from . import core


def emit(obj: dict[str, Any]) -> None:
    sys.__stdout__.write(json.dumps(obj, default=core._default) + "\n")
    sys.__stdout__.flush()


def run_forked(mod: Any, env: Any, case: dict[str, Any], timeout: float = 300.0, want_trace: bool = False) -> dict[str, Any]:
    """
    Execute one run in a forked child of this (pristine) worker, so that every run starts from
    the same process state: a run is a pure function of (case, code under test) and cannot see
    what earlier runs of the worker left behind. The worker itself never executes a run.
    """
    import select
    import signal

    r, w = os.pipe()
    sys.__stdout__.flush()
    pid = os.fork()
    if pid == 0:
        code = 0
        try:
            os.close(r)
            faulthandler.dump_traceback_later(max(5.0, timeout - 5.0), exit=True, file=sys.__stderr__)
            try:
                res = mod.run_case(env, case, want_trace=True) if want_trace else mod.run_case(env, case)
            except BaseException:  # noqa: BLE001
                res = {"verdict": "harness_error", "trace": traceback.format_exc(), "digest": "", "counters": {}}
            data = json.dumps(res, default=core._default).encode()
            off = 0
            while off < len(data):
                off += os.write(w, data[off : off + 65536])
        except BaseException:  # noqa: BLE001
            code = 3
        finally:
            os._exit(code)
    os.close(w)
    buf = bytearray()
    deadline = time.time() + timeout
    timed_out = False
    while True:
        left = deadline - time.time()
        if left <= 0:
            timed_out = True
            break
        rl, _, _ = select.select([r], [], [], min(left, 5.0))
        if not rl:
            continue
        chunk = os.read(r, 1 << 16)
        if not chunk:
            break
        buf += chunk
    os.close(r)
    if timed_out:
        try:
            os.kill(pid, signal.SIGKILL)
        except OSError:
            pass
    _, status = os.waitpid(pid, 0)
    if timed_out:
        return {"verdict": "harness_error", "trace": f"run exceeded {timeout}s wall and was killed", "digest": "", "counters": {}}
    if not buf:
        return {"verdict": "harness_error", "trace": f"run child produced no result (wait status {status})", "digest": "", "counters": {}}
    return json.loads(buf.decode())


class Zygote:
    """
    A process forked from the worker right after set-up that does nothing but fork one child per
    run. The child - not the zygote, not the worker - reads the case from a pipe, so the heap a
    run starts from is a function of the case alone (the worker's own heap depends on every case
    it has generated; object addresses, and with them `id()`-keyed state in the code under test,
    would otherwise differ between a batch run and its replay).
    """

    def __init__(self, mod: Any, env: Any) -> None:
        self.ctl_r, self.ctl_w = os.pipe()
        self.data_r, self.data_w = os.pipe()
        self.info_r, self.info_w = os.pipe()
        self.res_r, self.res_w = os.pipe()
        self.alive = True
        sys.__stdout__.flush()
        self.pid = os.fork()
        if self.pid == 0:
            try:
                for fd in (self.ctl_w, self.data_w, self.info_r, self.res_r):
                    os.close(fd)
                self._serve(mod, env)
            finally:
                os._exit(0)
        for fd in (self.ctl_r, self.data_r, self.info_w, self.res_w):
            os.close(fd)

    @staticmethod
    def _readn(fd: int, n: int) -> bytes:
        buf = bytearray()
        while len(buf) < n:
            chunk = os.read(fd, min(1 << 16, n - len(buf)))
            if not chunk:
                raise EOFError
            buf += chunk
        return bytes(buf)

    def _serve(self, mod: Any, env: Any) -> None:
        while True:
            b = os.read(self.ctl_r, 1)
            if not b:
                return
            pid = os.fork()
            if pid == 0:
                code = 0
                try:
                    hdr = self._readn(self.data_r, 17)
                    n, timeout, want_trace = int.from_bytes(hdr[:8], "little"), int.from_bytes(hdr[8:16], "little"), hdr[16]
                    faulthandler.dump_traceback_later(max(5.0, timeout - 5.0), exit=True, file=sys.__stderr__)
                    try:
                        case = json.loads(self._readn(self.data_r, n))
                        res = mod.run_case(env, case, want_trace=True) if want_trace else mod.run_case(env, case)
                    except BaseException:  # noqa: BLE001
                        res = {"verdict": "harness_error", "trace": traceback.format_exc(), "digest": "", "counters": {}}
                    data = json.dumps(res, default=core._default).encode()
                    data = len(data).to_bytes(8, "little") + data
                    off = 0
                    while off < len(data):
                        off += os.write(self.res_w, data[off : off + 65536])
                except BaseException:  # noqa: BLE001
                    code = 3
                finally:
                    os._exit(code)
            os.write(self.info_w, pid.to_bytes(8, "little"))
            _, status = os.waitpid(pid, 0)
            os.write(self.info_w, (status & 0xFFFFFFFF).to_bytes(8, "little"))

    def run(self, case: dict[str, Any], timeout: float, want_trace: bool) -> dict[str, Any]:
        import select
        import signal

        payload = json.dumps(case, default=core._default).encode()
        os.write(self.ctl_w, b"x")
        pid = int.from_bytes(self._readn(self.info_r, 8), "little")
        msg = len(payload).to_bytes(8, "little") + int(timeout).to_bytes(8, "little") + bytes([1 if want_trace else 0]) + payload
        deadline = time.time() + timeout
        buf = bytearray()
        need: int | None = None
        status: int | None = None
        off = 0
        timed_out = False
        while True:
            left = deadline - time.time()
            if left <= 0:
                timed_out = True
                break
            wl = [self.data_w] if off < len(msg) else []
            rl, wl2, _ = select.select([self.res_r, self.info_r], wl, [], min(left, 5.0))
            if wl2:
                off += os.write(self.data_w, msg[off : off + 65536])
            if self.res_r in rl:
                chunk = os.read(self.res_r, 1 << 16)
                buf += chunk
                if need is None and len(buf) >= 8:
                    need = int.from_bytes(buf[:8], "little")
            if self.info_r in rl:
                status = int.from_bytes(self._readn(self.info_r, 8), "little")
            if need is not None and len(buf) >= 8 + need and status is not None:
                break
            if status is not None and not (self.res_r in rl) and (need is None or len(buf) < 8 + need):
                # the child is gone; whatever it wrote is already in the pipe
                r2, _, _ = select.select([self.res_r], [], [], 0)
                if not r2:
                    break
        if timed_out:
            # the pipes may hold half a message: this zygote is not used again
            self.alive = False
            for p_ in (pid, self.pid):
                try:
                    os.kill(p_, signal.SIGKILL)
                except OSError:
                    pass
            try:
                os.waitpid(self.pid, 0)
            except OSError:
                pass
            return {"verdict": "harness_error", "trace": f"run exceeded {timeout}s wall and was killed", "digest": "", "counters": {}}
        if need is None or len(buf) < 8 + need:
            if off < len(msg):
                self.alive = False  # unread payload left in the pipe
            return {"verdict": "harness_error", "trace": f"run child produced no result (wait status {status})", "digest": "", "counters": {}}
        return json.loads(bytes(buf[8 : 8 + need]).decode())

    def close(self) -> None:
        for fd in (self.ctl_w, self.data_w, self.info_r, self.res_r):
            try:
                os.close(fd)
            except OSError:
                pass
        if self.alive:
            try:
                os.waitpid(self.pid, 0)
            except OSError:
                pass


def load_check(check: str) -> Any:
    return importlib.import_module(f"dst.check_{check.lower()}")


def main(argv: list[str] | None = None) -> int:
    ap = argparse.ArgumentParser()
    ap.add_argument("check")
    ap.add_argument("--tier", default="quick")
    ap.add_argument("--seed", type=int, default=0)
    ap.add_argument("--indices", default="", help="start:stop:step or comma list")
    ap.add_argument("--deadline", type=float, default=0.0, help="epoch seconds after which no new run is started")
    ap.add_argument("--run-timeout", type=float, default=float(os.environ.get("VERIF_RUN_TIMEOUT_S", "900")))  # bounds hangs only; generous, because an overloaded machine slows a 2000-execution workload several-fold
    ap.add_argument("--minimise", default="", help="violation json in -> replay json out (path)")
    ap.add_argument("--replay", default="")
    ap.add_argument("--out", default="")
    ap.add_argument("--trace", action="store_true")
    a = ap.parse_args(argv)

    faulthandler.enable(file=sys.__stderr__)
    src = core.repo_src()
    if src not in sys.path:
        sys.path.insert(0, src)
    mod = load_check(a.check)
    env = mod.Env()
    try:
        env.setup()
    except BaseException:  # noqa: BLE001
        emit({"harness_error": "setup failed", "trace": traceback.format_exc()})
        return 2

    zyg: Zygote | None = None
    if getattr(mod, "FORK_PER_RUN", True):
        zyg = Zygote(mod, env) if os.environ.get("VERIF_NO_ZYGOTE") != "1" else None
        env.zygote = zyg

        def _run(case: dict[str, Any], want_trace: bool = False) -> dict[str, Any]:
            if zyg is not None and zyg.alive:
                return zyg.run(case, a.run_timeout, want_trace)
            return run_forked(mod, env, case, a.run_timeout, want_trace)

        env.run = _run
    else:
        env.run = lambda case, want_trace=False: (mod.run_case(env, case, want_trace=True) if want_trace else mod.run_case(env, case))
    try:
        if a.replay:
            return _replay(mod, env, a)
        if a.minimise:
            return _minimise(mod, env, a)
        return _batch(mod, env, a)
    finally:
        if zyg is not None:
            zyg.close()
        env.close()


def _indices(spec: str) -> list[int]:
    if ":" in spec:
        p = [int(x) for x in spec.split(":")]
        return list(range(*p))
    return [int(x) for x in spec.split(",") if x != ""]


def _batch(mod: Any, env: Any, a: Any) -> int:
    idx = _indices(a.indices)
    agg_sets: dict[str, set[str]] = {}
    n_done = 0
    for chunk in core.chunks(idx, getattr(mod, "CHUNK", 32)):
        if a.deadline and time.time() > a.deadline:
            break
        cases = []
        for i in chunk:
            rs = core.derive_seed(a.seed, a.check, a.tier, i)
            try:
                cases.append((i, rs, mod.gen_case(rs, a.tier, index=i) if getattr(mod, "GEN_TAKES_INDEX", False) else mod.gen_case(rs, a.tier)))
            except Exception:  # noqa: BLE001 - a generator defect costs one run, not the worker's whole share
                emit({"i": i, "seed": rs, "verdict": "harness_error", "trace": "gen_case failed: " + traceback.format_exc()[-800:], "digest": "", "counters": {}})
        if hasattr(mod, "prepare") and getattr(env, "zygote", None) is None:
            mod.prepare(env, [c for _, _, c in cases])
        for i, rs, case in cases:
            if a.deadline and time.time() > a.deadline:
                break
            try:
                res = env.run(case, a.trace)
            except BaseException:  # noqa: BLE001
                res = {"verdict": "harness_error", "trace": traceback.format_exc(), "digest": "", "counters": {}}
            for k in getattr(mod, "SET_KEYS", ()):
                vals = res.pop(k, None)
                if vals:
                    agg_sets.setdefault(k, set()).update(vals)
            line = {"i": i, "seed": rs, **res}
            if res.get("verdict") != "ok":
                line["case"] = case
            elif i % getattr(mod, "SAMPLE_EVERY", 997) == 0:
                line["sample_case"] = mod.sample_of(case, res) if hasattr(mod, "sample_of") else case
            emit(line)
            n_done += 1
    emit({"summary": True, "runs": n_done, "sets": {k: sorted(v) for k, v in agg_sets.items()}, "env": env.info() if hasattr(env, "info") else {}})
    return 0


def _minimise(mod: Any, env: Any, a: Any) -> int:
    with open(a.minimise) as f:
        v = json.load(f)
    case, fp = v["case"], v["fingerprint"]
    small = mod.minimise(env, case, fp)
    res = env.run(small, True)
    if not (res["verdict"] == "violation" and res["fingerprint"] == fp):
        small = case
        res = env.run(small, True)
    out = {
        "check": a.check,
        "property": a.check,
        "fingerprint": fp,
        "verif_seed": v.get("verif_seed"),
        "run_index": v.get("i"),
        "run_seed": v.get("seed"),
        "case": small,
        "observed": {k: res.get(k) for k in ("verdict", "fingerprint", "detail", "digest")},
        "how_to_replay": f"./run_check.sh {a.check} --replay <this file>",
    }
    with open(a.out, "w") as f:
        json.dump(out, f, indent=1, default=core._default)
    emit({"minimised": a.out, "reproduced": res["verdict"] == "violation" and res["fingerprint"] == fp})
    return 0


def _replay(mod: Any, env: Any, a: Any) -> int:
    with open(a.replay) as f:
        v = json.load(f)
    if hasattr(mod, "prepare") and getattr(env, "zygote", None) is None:
        mod.prepare(env, [v["case"]])
    res = env.run(v["case"], True)
    same = res["verdict"] == "violation" and res["fingerprint"] == v["fingerprint"]
    same_digest = res.get("digest") == (v.get("observed") or {}).get("digest")
    emit({"replay": a.replay, "verdict": res["verdict"], "fingerprint": res.get("fingerprint"), "expected_fingerprint": v["fingerprint"], "reproduced": same, "same_digest": same_digest, "detail": res.get("detail")})
    return 1 if same else 0


if __name__ == "__main__":
    sys.exit(main())
