"""
Shared plumbing: seed derivation, digests, delta debugging, known findings, paths.

Nothing in this module draws from a PRNG or reads a clock on behalf of a run; wall-clock is read
only by the coordinator (dst/coordinator.py) to decide when to stop starting runs.
"""

from __future__ import annotations

import hashlib
import json
import os
import random
from collections.abc import Callable, Iterable, Sequence
from typing import Any

VERIF_DIR = os.path.dirname(os.path.dirname(os.path.abspath(__file__)))
# VERIF_EVIDENCE_DIR / VERIF_REPLAY_DIR: only for runs against scratch copies (mutants, seeded changes)
EVIDENCE_DIR = os.environ.get("VERIF_EVIDENCE_DIR") or os.path.join(VERIF_DIR, "evidence")
REPLAY_DIR = os.environ.get("VERIF_REPLAY_DIR") or os.path.join(VERIF_DIR, "replays")
FINDINGS_FILE = os.path.join(VERIF_DIR, "KNOWN_FINDINGS.txt")

CHECKS = ("C13", "C14", "C15", "C17")
LEVEL = {"C13": "exploration", "C14": "fault_enumeration", "C15": "exploration", "C17": "exploration"}


def repo_src() -> str:
    return os.path.realpath(os.environ.get("VERIF_REPO_SRC", "/repo/src"))


def verif_seed() -> int:
    try:
        return int(os.environ.get("VERIF_SEED", "0"))
    except ValueError:
        return 0


def derive_seed(seed: int, check: str, tier: str, index: int, salt: str = "") -> int:
    """One integer decides everything: run seed = f(VERIF_SEED, check, tier, run index)."""
    h = hashlib.sha256(f"{seed}/{check}/{tier}/{index}/{salt}".encode()).hexdigest()
    return int(h[:12], 16)


def sub_rng(run_seed: int, label: str) -> random.Random:
    """Independent, named PRNG stream of one run (so adding draws to one stream does not shift another)."""
    h = hashlib.sha256(f"{run_seed}:{label}".encode()).digest()
    return random.Random(int.from_bytes(h[:8], "big"))


def canon(obj: Any) -> str:
    return json.dumps(obj, sort_keys=True, ensure_ascii=True, separators=(",", ":"), default=_default)


def _default(o: Any) -> Any:
    if isinstance(o, bytes):
        return {"__bytes__": o.decode("latin-1")}
    if isinstance(o, (set, frozenset)):
        return sorted(o)
    if isinstance(o, tuple):
        return list(o)
    return repr(o)


def digest(obj: Any, n: int = 16) -> str:
    if isinstance(obj, bytes):
        data = obj
    elif isinstance(obj, str):
        data = obj.encode("utf-8", "surrogatepass")
    else:
        data = canon(obj).encode()
    return hashlib.blake2b(data, digest_size=16).hexdigest()[:n]


def b2j(b: bytes | None) -> Any:
    """bytes -> JSON-able (text when valid UTF-8, else latin-1 wrapped)."""
    if b is None:
        return None
    try:
        return {"t": b.decode("utf-8")}
    except UnicodeDecodeError:
        return {"l": b.decode("latin-1")}


def j2b(j: Any) -> bytes | None:
    if j is None:
        return None
    if "t" in j:
        return j["t"].encode("utf-8")
    return j["l"].encode("latin-1")


# ---------------------------------------------------------------------------------------------
# delta debugging


def ddmin(items: Sequence[Any], test: Callable[[list[Any]], bool], budget: list[int] | None = None) -> list[Any]:
    """
    Classic ddmin: smallest sub-list (1-minimal when the budget allows) of `items` for which
    `test` is still True. `budget` is a one-element list holding the remaining number of test
    evaluations; when it reaches 0 the best list so far is returned.
    """
    cur = list(items)
    if budget is None:
        budget = [10_000]

    def t(c: list[Any]) -> bool:
        if budget[0] <= 0:
            return False
        budget[0] -= 1
        return test(c)

    if not cur:
        return cur
    if t([]):
        return []
    n = 2
    while len(cur) >= 2 and budget[0] > 0:
        chunk = -(-len(cur) // n)
        subsets = [cur[i : i + chunk] for i in range(0, len(cur), chunk)]
        reduced = False
        for sub in subsets:
            if len(sub) < len(cur) and t(sub):
                cur, n, reduced = sub, 2, True
                break
        if not reduced and len(subsets) > 2:
            for i in range(len(subsets)):
                comp = [x for j, sb in enumerate(subsets) if j != i for x in sb]
                if t(comp):
                    cur, n, reduced = comp, max(n - 1, 2), True
                    break
        if not reduced:
            if n >= len(cur):
                break
            n = min(len(cur), n * 2)
    return cur


def shrink_text_lines(text: str, test: Callable[[str], bool], budget: list[int]) -> str:
    """Drop blank-line separated blocks, then single lines, while `test` stays True."""
    blocks = text.split("\n\n")
    if len(blocks) > 1:
        kept = ddmin(blocks, lambda bs: test("\n\n".join(bs)), budget)
        if kept:
            text = "\n\n".join(kept)
    lines = text.split("\n")
    if len(lines) > 1:
        kept = ddmin(lines, lambda ls: test("\n".join(ls)), budget)
        if kept:
            text = "\n".join(kept)
    return text


# ---------------------------------------------------------------------------------------------
# known findings


def load_findings() -> list[dict[str, Any]]:
    """Parse KNOWN_FINDINGS.txt (see the header of that file for the line format)."""
    out: list[dict[str, Any]] = []
    try:
        with open(FINDINGS_FILE, encoding="utf-8") as f:
            lines = f.read().splitlines()
    except FileNotFoundError:
        return out
    for ln in lines:
        ln = ln.strip()
        if not ln or ln.startswith("#"):
            continue
        status, _, rest = ln.partition(":")
        status = status.strip()
        if status not in ("finding", "fixed"):
            continue
        words = rest.split()
        ent: dict[str, Any] = {"status": status, "line": ln}
        free: list[str] = []
        for w_ in words:
            if w_.startswith("property=") and "property" not in ent:
                ent["property"] = w_[len("property=") :]
            elif w_.startswith("fingerprint=") and "fingerprint" not in ent:
                ent["fingerprint"] = w_[len("fingerprint=") :]
            else:
                free.append(w_)
        if status == "fixed" and free:
            ent["commit"] = free.pop(0)
        ent["what"] = " ".join(free)
        out.append(ent)
    return out


def finding_for(check: str, fingerprint: str) -> dict[str, Any] | None:
    """A listed *open* finding with exactly this fingerprint (fixed entries suppress nothing)."""
    for f in load_findings():
        if f.get("property") == check and f.get("fingerprint") == fingerprint and f.get("status") == "finding":
            return f
    return None


# ---------------------------------------------------------------------------------------------
# misc


def merge_counters(into: dict[str, Any], add: dict[str, Any]) -> None:
    for k, v in add.items():
        if isinstance(v, dict):
            merge_counters(into.setdefault(k, {}), v)
        elif isinstance(v, (int, float)):
            into[k] = into.get(k, 0) + v
        else:
            into[k] = v


def chunks(seq: Sequence[Any], n: int) -> Iterable[Sequence[Any]]:
    for i in range(0, len(seq), n):
        yield seq[i : i + n]
