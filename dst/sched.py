"""
Engine A - caller-thread simulator.

Real Python threads, exactly one runnable at any time (baton passing on raw `_thread` locks);
pre-emption points at every Python function call (optionally line / return events) inside
flowmark/ and marko/ frames via `sys.settrace`; a seeded policy decides every switch; locks created
through `threading.Lock/RLock` while the patch is installed are cooperative (`SimLock`), so code
under test that *adds* locks cannot hang the simulator; faults (aborted call, cache eviction, GC)
fire at explicit global step numbers.

A run is a pure function of (workload, policy description, fault list, code under test). Every
run records the switches it actually took, so any run can be replayed (and minimised) with the
`explicit` policy and no PRNG.
"""

from __future__ import annotations

import _thread
import gc
import hashlib
import os
import random
import sys
import threading
from typing import Any

_allocate_lock = _thread.allocate_lock
_get_ident = _thread.get_ident
_real_Lock = threading.Lock
_real_RLock = threading.RLock


class InjectedAbort(BaseException):
    """Stands for KeyboardInterrupt / MemoryError / a raising user callback inside a call."""


class InjectedError(Exception):
    """An ordinary exception inside a call (stands for a raising user-supplied line_wrapper callback)."""


class DeadlockAbort(BaseException):
    """Unwinds simulated threads after the scheduler found no runnable thread."""


class StepCap(BaseException):
    """Run exceeded its step cap (bounded-liveness violation or harness problem)."""


# ---------------------------------------------------------------------------------------------
# cooperative locks

_CURRENT: "Scheduler | None" = None


class SimLock:
    """Drop-in for threading.Lock: real lock outside a simulation, cooperative inside one."""

    def __init__(self) -> None:
        self._real = _allocate_lock()

    def acquire(self, blocking: bool = True, timeout: float = -1) -> bool:
        s = _CURRENT
        tid = s.tid_of_current() if s is not None else None
        if tid is None:
            return self._real.acquire(blocking, timeout)
        assert s is not None
        while True:
            if self._real.acquire(False):
                return True
            if not blocking:
                return False
            s.block_on(tid, self)

    def release(self) -> None:
        self._real.release()
        s = _CURRENT
        if s is not None:
            s.lock_released(self)

    def locked(self) -> bool:
        return self._real.locked()

    def __enter__(self) -> bool:
        return self.acquire()

    def __exit__(self, *a: Any) -> None:
        self.release()

    def _at_fork_reinit(self) -> None:
        self._real = _allocate_lock()


class SimRLock:
    def __init__(self) -> None:
        self._block = SimLock()
        self._owner: int | None = None
        self._count = 0

    def acquire(self, blocking: bool = True, timeout: float = -1) -> bool:
        me = _get_ident()
        if self._owner == me:
            self._count += 1
            return True
        rc = self._block.acquire(blocking, timeout)
        if rc:
            self._owner = me
            self._count = 1
        return rc

    def release(self) -> None:
        if self._owner != _get_ident():
            raise RuntimeError("cannot release un-acquired lock")
        self._count -= 1
        if self._count == 0:
            self._owner = None
            self._block.release()

    def __enter__(self) -> bool:
        return self.acquire()

    def __exit__(self, *a: Any) -> None:
        self.release()

    # threading.Condition support
    def _is_owned(self) -> bool:
        return self._owner == _get_ident()

    def _release_save(self) -> Any:
        count, owner = self._count, self._owner
        self._count, self._owner = 0, None
        self._block.release()
        return (count, owner)

    def _acquire_restore(self, state: Any) -> None:
        self._block.acquire()
        self._count, self._owner = state

    def _at_fork_reinit(self) -> None:
        self._block._at_fork_reinit()
        self._owner, self._count = None, 0


def install_lock_patch() -> None:
    """Locks created from now on through `threading.Lock/RLock` are cooperative in simulation."""
    threading.Lock = SimLock  # type: ignore[misc,assignment]
    threading.RLock = SimRLock  # type: ignore[misc,assignment]


def uninstall_lock_patch() -> None:
    threading.Lock = _real_Lock  # type: ignore[misc]
    threading.RLock = _real_RLock  # type: ignore[misc]


# ---------------------------------------------------------------------------------------------
# process-global caches whose content changes which Python frames run


class CacheRegistry:
    def __init__(self, prefixes: tuple[str, ...] = ("flowmark", "marko")) -> None:
        self.prefixes = prefixes
        self.items: list[tuple[str, Any]] = []

    def scan(self) -> None:
        seen: set[int] = set()
        items: list[tuple[str, Any]] = []
        for name in sorted(sys.modules):
            if not any(name == p or name.startswith(p + ".") for p in self.prefixes):
                continue
            mod = sys.modules[name]
            if mod is None:
                continue
            for an in sorted(vars(mod)):
                obj = vars(mod)[an]
                self._consider(f"{name}.{an}", obj, seen, items)
                if isinstance(obj, type) and getattr(obj, "__module__", "").split(".")[0] in self.prefixes:
                    for cn in sorted(vars(obj)):
                        cobj = vars(obj)[cn]
                        if isinstance(cobj, (staticmethod, classmethod)):
                            cobj = cobj.__func__
                        self._consider(f"{name}.{an}.{cn}", cobj, seen, items)
        self.items = items

    @staticmethod
    def _consider(label: str, obj: Any, seen: set[int], items: list[tuple[str, Any]]) -> None:
        if callable(getattr(obj, "cache_clear", None)) and id(obj) not in seen:
            seen.add(id(obj))
            items.append((label, obj))

    def clear_all(self, purge_re: bool = True) -> None:
        for _, obj in self.items:
            obj.cache_clear()
        if purge_re:
            import re

            re.purge()
            try:
                import regex

                regex.purge()
            except Exception:
                pass

    def clear_some(self, mask: int) -> None:
        for i, (_, obj) in enumerate(self.items):
            if mask >> (i % 30) & 1:
                obj.cache_clear()
        if mask >> 30 & 1:
            import re

            re.purge()

    def labels(self) -> list[str]:
        return [lbl for lbl, _ in self.items]


# ---------------------------------------------------------------------------------------------
# switch policies


class Policy:
    """decide(): voluntary switch at a yield point; pick(): forced choice when cur cannot go on."""

    sched: "Scheduler"

    def decide(self, step: int, tid: int, site: int, ready: list[int]) -> int | None:
        return None

    def pick(self, step: int, ready: list[int]) -> int:
        return ready[0]


class Bernoulli(Policy):
    def __init__(self, rng: random.Random, p: float) -> None:
        self.rng, self.p = rng, p

    def decide(self, step: int, tid: int, site: int, ready: list[int]) -> int | None:
        if ready and self.rng.random() < self.p:
            return ready[self.rng.randrange(len(ready))]
        return None

    def pick(self, step: int, ready: list[int]) -> int:
        return ready[self.rng.randrange(len(ready))]


class PCT(Policy):
    """Priority schedule with d priority-change points at given global steps."""

    def __init__(self, order: list[int], change_steps: list[int]) -> None:
        self.order = list(order)  # highest priority first
        self.change = set(change_steps)

    def decide(self, step: int, tid: int, site: int, ready: list[int]) -> int | None:
        if step in self.change and tid in self.order:
            self.order.remove(tid)
            self.order.append(tid)
        if not ready:
            return None
        for t in self.order:
            if t == tid:
                return None
            if t in ready:
                return t
        return None

    def pick(self, step: int, ready: list[int]) -> int:
        for t in self.order:
            if t in ready:
                return t
        return ready[0]


class Targeted(Policy):
    """Pre-empt thread x at the k-th time it passes site s, run y for m steps, resume x."""

    def __init__(self, x: int, site: int, k: int, y: int, m: int) -> None:
        self.x, self.site, self.k, self.y, self.m = x, site, k, y, m
        self.count = 0
        self.back_at: int | None = None

    def decide(self, step: int, tid: int, site: int, ready: list[int]) -> int | None:
        if self.back_at is None:
            if tid == self.x and site == self.site:
                self.count += 1
                if self.count == self.k and ready:
                    self.back_at = step + self.m
                    return self.y if self.y in ready else ready[0]
        elif step >= self.back_at and tid != self.x and self.x in ready:
            self.back_at = 1 << 60
            return self.x
        return None


class Explicit(Policy):
    """
    Replays a recorded switch list [[epoch, from_tid, local_step, to_tid], ...]. `local_step` is
    the number of yield points `from_tid` has passed in that epoch (-1: the thread finished or
    blocked; from_tid -1: start of the epoch). Keys are relative to the switching thread, so the
    list keeps its meaning when other threads, calls or switches are removed by the minimiser.
    """

    def __init__(self, switches: list[list[int]]) -> None:
        self.map: dict[tuple[int, int, int], list[int]] = {}
        for e, frm, loc, to in switches:
            self.map.setdefault((int(e), int(frm), int(loc)), []).append(int(to))

    def _take(self, key: tuple[int, int, int], ready: list[int]) -> int | None:
        q = self.map.get(key)
        while q:
            to = q.pop(0)
            if to in ready:
                return to
        return None

    def decide(self, step: int, tid: int, site: int, ready: list[int]) -> int | None:
        s = self.sched
        return self._take((s.epoch, tid, s.local.get(tid, 0)), ready)

    def pick(self, step: int, ready: list[int]) -> int:
        s = self.sched
        frm = s.cur if s.cur is not None else -1
        to = self._take((s.epoch, frm, -1 if frm >= 0 else 0), ready)
        return to if to is not None else ready[0]


def make_policy(desc: dict[str, Any]) -> Policy:
    k = desc["kind"]
    if k == "bernoulli":
        return Bernoulli(random.Random(desc["seed"]), desc["p"])
    if k == "pct":
        return PCT(desc["order"], desc["change_steps"])
    if k == "targeted":
        return Targeted(desc["x"], desc["site"], desc["k"], desc["y"], desc["m"])
    if k == "explicit":
        return Explicit(desc["switches"])
    if k == "none":
        return Policy()
    raise ValueError(k)


# ---------------------------------------------------------------------------------------------
# the scheduler


# "api" granularity: yield points only at call/return of the public entry points - cheap enough
# for documents whose formatting makes millions of internal calls
API_MODULES = {"flowmark.reformat_api", "flowmark.linewrapping.markdown_filling", "flowmark.linewrapping.text_filling", "flowmark.formats.frontmatter"}


def _phase_of(site_name: str) -> str:
    mod = site_name.split(":", 1)[0]
    if mod.startswith("marko.") and not mod.startswith(("marko.renderer", "marko.md_renderer")):
        return "parse"
    if mod.startswith(("flowmark.transforms", "flowmark.typography")):
        return "rewrite"
    if mod.startswith(("flowmark.formats.flowmark_markdown", "marko.renderer", "flowmark.linewrapping.line_wrappers",
                       "flowmark.linewrapping.text_wrapping", "flowmark.linewrapping.tag_handling",
                       "flowmark.linewrapping.sentence_split_regex", "flowmark.linewrapping.atomic_patterns")):
        return "render"
    return "other"


class Scheduler:
    """
    One instance per run. Threads of all epochs of the run share the global step counter, the
    event-log digest, the fault list and the policy.
    """

    def __init__(
        self,
        policy: Policy,
        faults: list[dict[str, Any]],
        granularity: str,
        step_cap: int,
        roots: tuple[str, ...],
        caches: CacheRegistry,
        fine_dirs: tuple[str, ...] = ("formats", "linewrapping"),
    ) -> None:
        self.policy = policy
        policy.sched = self
        self.granularity = granularity
        self.step_cap = step_cap
        self.roots = roots
        self.caches = caches
        self.fine_dirs = fine_dirs
        self.step = 0
        self.hash = hashlib.blake2b(digest_size=16)
        self.site_ids: dict[str, int] = {}
        self.site_names: list[str] = []
        self.code_sites: dict[Any, int] = {}
        self.faults_at: dict[int, list[dict[str, Any]]] = {}
        for f in faults:
            if f.get("call") is None:
                self.faults_at.setdefault(int(f["step"]), []).append(f)
        self.fired: list[dict[str, Any]] = []
        self.switches: list[list[int]] = []
        self.local: dict[int, int] = {}
        self.n_voluntary = 0
        self.n_forced = 0
        self.deadlock = False
        self.cap_hit = False
        self.last_fault_step = 0
        # per-epoch
        self.n = 0
        self.state: list[str] = []
        self.batons: list[Any] = []
        self.idents: dict[int, int] = {}
        self.waiting: dict[int, Any] = {}
        self.cur: int | None = None
        self.ctrl = _allocate_lock()
        self.cur_call: dict[int, int] = {}
        self.aborted_calls: set[tuple[int, int, int]] = set()
        self.epoch = 0
        # reach measures
        self.preempt_pairs: set[tuple[int, int]] = set()
        self.switch_hash = hashlib.blake2b(digest_size=16)
        self.phase: dict[int, str] = {}
        self.phase_overlap: set[tuple[str, str]] = set()
        self.site_trace: dict[int, list[Any]] | None = None  # tid -> sites (dry runs only)
        self.trace_subs = False  # record (site, line) pairs instead of sites
        self.cur_sub = 0
        self.site_phase: list[str] = []
        self.parked_site: dict[int, int] = {}
        # aborts addressed relative to a call: {(epoch, tid, call): fault}; armed by the thread body
        self.call_aborts: dict[tuple[int, int, int], dict[str, Any]] = {}
        for f in faults:
            if f.get("call") is not None:
                self.call_aborts[tuple(f["call"])] = f  # type: ignore[index]
        self.abort_local: dict[int, tuple[int, dict[str, Any]]] = {}

    # -- identification -----------------------------------------------------------------

    def tid_of_current(self) -> int | None:
        return self.idents.get(_get_ident())

    def site_of(self, code: Any) -> int:
        sid = self.code_sites.get(code)
        if sid is None:
            fn = code.co_filename
            sid = 0
            for r in self.roots:
                if fn.startswith(r):
                    if code.co_name == "<module>" or fn.endswith(".pyi"):
                        break
                    rel = fn[len(r) :].lstrip(os.sep)
                    mod = rel[:-3].replace(os.sep, ".")
                    if self.granularity == "api" and mod not in API_MODULES:
                        break  # sparse mode: only the entry points are yield points
                    name = mod + ":" + getattr(code, "co_qualname", code.co_name)
                    sid = self._intern(name)
                    break
            self.code_sites[code] = sid
        return sid

    def _intern(self, name: str) -> int:
        sid = self.site_ids.get(name)
        if sid is None:
            sid = len(self.site_names) + 1
            self.site_ids[name] = sid
            self.site_names.append(name)
            self.site_phase.append(_phase_of(name))
        return sid

    # -- tracing ------------------------------------------------------------------------

    def make_tracer(self, tid: int) -> Any:
        gran = self.granularity
        sched = self

        def local(frame: Any, event: str, arg: Any) -> Any:
            if event == "line":
                if gran == "line":
                    sched.yield_point(tid, sched.site_of(frame.f_code), frame.f_lineno)
            elif event == "return":
                sched.yield_point(tid, sched.site_of(frame.f_code), -1)
            return local

        def tracer(frame: Any, event: str, arg: Any) -> Any:
            if event != "call":
                return None
            sid = sched.site_of(frame.f_code)
            if not sid:
                return None
            sched.yield_point(tid, sid, 0)
            if gran == "call":
                return None
            if gran == "api":
                return local  # call and return of the few entry-point functions
            if gran == "line":
                name = sched.site_names[sid - 1]
                if not any(("." + d + ".") in ("." + name) for d in sched.fine_dirs):
                    return None
            return local

        return tracer

    # -- the yield point ----------------------------------------------------------------

    def yield_point(self, tid: int, site: int, sub: int) -> None:
        if self.deadlock:
            raise DeadlockAbort()
        self.step += 1
        s = self.step
        self.local[tid] = self.local.get(tid, 0) + 1
        self.hash.update(b"%d:%d:%d;" % (tid, site, sub))
        self.cur_sub = sub
        if self.site_trace is not None:
            self.site_trace.setdefault(tid, []).append((site, sub) if self.trace_subs else site)
        self.phase[tid] = self.site_phase[site - 1]
        if s > self.step_cap:
            self.cap_hit = True
            raise StepCap()
        fl = self.faults_at.get(s)
        if fl is not None:
            self._fire(fl, tid, s)
        if self.abort_local:
            al = self.abort_local.get(tid)
            if al is not None and self.local[tid] >= al[0]:
                del self.abort_local[tid]
                self._fire([al[1]], tid, s)
        ready = [t for t in range(self.n) if t != tid and self.state[t] == "ready"]
        to = self.policy.decide(s, tid, site, ready)
        if to is not None and to != tid and to in ready:
            self.n_voluntary += 1
            self.parked_site[tid] = site
            self.preempt_pairs.add((site, self.parked_site.get(to, 0)))
            self._switch(tid, to, site)
            if self.deadlock:
                raise DeadlockAbort()

    def _fire(self, fl: list[dict[str, Any]], tid: int, s: int) -> None:
        abort = False
        abort_exc = False
        for f in fl:
            k = f["kind"]
            if k == "cache_clear":
                self.caches.clear_some(int(f.get("mask", (1 << 31) - 1)))
            elif k == "gc":
                gc.collect()
            elif k == "abort":
                abort = True
                abort_exc = f.get("exc") == "exception"
            self.fired.append({"kind": k, "step": s, "tid": tid, "epoch": self.epoch, "call": self.cur_call.get(tid, -1)})
            self.last_fault_step = s
        if abort:
            self.aborted_calls.add((self.epoch, tid, self.cur_call.get(tid, -1)))
            raise (InjectedError("injected") if abort_exc else InjectedAbort())

    def _switch(self, frm: int, to: int, site: int = 0, forced: bool = False) -> None:
        self.switches.append([self.epoch, frm, -1 if forced else self.local.get(frm, 0), to])
        self.switch_hash.update(b"%d>%d@%d;" % (frm, to, site))
        pf, pt = self.phase.get(frm), self.phase.get(to)
        if pf and pt:
            self.phase_overlap.add((pf, pt))
        self.cur = to
        self.batons[to].release()
        self.batons[frm].acquire()

    def begin_call(self, tid: int, call_index: int) -> None:
        """Called by the thread body right before a call: arms a call-relative abort, if planned."""
        self.cur_call[tid] = call_index
        self.abort_local.pop(tid, None)
        f = self.call_aborts.get((self.epoch, tid, call_index))
        if f is not None:
            self.abort_local[tid] = (self.local.get(tid, 0) + int(f["local"]), f)

    # -- blocking on SimLock ------------------------------------------------------------

    def block_on(self, tid: int, lock: Any) -> None:
        if self.deadlock:
            raise DeadlockAbort()
        self.state[tid] = "blocked"
        self.waiting[tid] = lock
        ready = [t for t in range(self.n) if self.state[t] == "ready"]
        if not ready:
            self._declare_deadlock()
            self.state[tid] = "ready"
            raise DeadlockAbort()
        to = self.policy.pick(self.step, ready)
        self.n_forced += 1
        self._switch(tid, to, 0, True)
        if self.deadlock:
            raise DeadlockAbort()

    def lock_released(self, lock: Any) -> None:
        for t, lk in list(self.waiting.items()):
            if lk is lock:
                del self.waiting[t]
                if self.state[t] == "blocked":
                    self.state[t] = "ready"

    def _declare_deadlock(self) -> None:
        self.deadlock = True
        self.deadlock_info = {
            "step": self.step,
            "blocked": sorted(t for t in range(self.n) if self.state[t] == "blocked"),
        }
        for t in range(self.n):
            if self.state[t] == "blocked":
                self.state[t] = "ready"
        self.waiting.clear()

    # -- thread end ---------------------------------------------------------------------

    def thread_done(self, tid: int) -> None:
        self.state[tid] = "done"
        ready = [t for t in range(self.n) if self.state[t] == "ready"]
        if ready:
            to = self.policy.pick(self.step, ready)
            self.n_forced += 1
            self.switches.append([self.epoch, tid, -1, to])
            self.cur = to
            self.batons[to].release()
            return
        if any(st == "blocked" for st in self.state):
            self._declare_deadlock()
            ready = [t for t in range(self.n) if self.state[t] == "ready"]
            self.cur = ready[0]
            self.batons[ready[0]].release()
            return
        self.cur = None
        self.ctrl.release()

    # -- epoch driver -------------------------------------------------------------------

    def run_epoch(self, thread_bodies: list[Any]) -> None:
        """One epoch with fresh threads (used for dry runs)."""
        self.run_history([list(thread_bodies)])

    def run_history(self, epochs: list[list[Any]], before_epoch: Any = None) -> None:
        """
        epochs[e][t] is the body of simulated thread t in epoch e (None: the thread is idle in that
        epoch). Simulated threads are created once and live for the whole history, like the
        workers of a thread pool, so per-thread state (threading.local) has a history too. An
        epoch ends when all its threads have finished their bodies; `before_epoch(e)` runs on
        the controller between epochs (quiescent point). Stops early on deadlock / step cap.
        """
        global _CURRENT
        n_epochs = len(epochs)
        self.n = max((len(ep) for ep in epochs), default=0)
        if self.n == 0:
            self.epoch += n_epochs
            return
        bodies = [[(ep[t] if t < len(ep) else None) for ep in epochs] for t in range(self.n)]
        self.batons = [_allocate_lock() for _ in range(self.n)]
        for b in self.batons:
            b.acquire()
        self.idents = {}
        self.ctrl.acquire(False)  # make sure it is held; thread_done() releases it
        started = [_allocate_lock() for _ in range(self.n)]
        for lk in started:
            lk.acquire()
        stop = [False]

        def runner(tid: int) -> None:
            self.idents[_get_ident()] = tid
            started[tid].release()
            tracer = self.make_tracer(tid)
            for e in range(n_epochs):
                body = bodies[tid][e]
                if body is None:
                    continue
                self.batons[tid].acquire()
                if stop[0]:
                    return
                try:
                    body(self, tid, tracer)
                except DeadlockAbort:
                    pass
                except StepCap:
                    pass
                finally:
                    sys.settrace(None)
                    self.thread_done(tid)

        prev_current = _CURRENT
        _CURRENT = self
        try:
            for t in range(self.n):
                _thread.start_new_thread(runner, (t,))
            for lk in started:
                lk.acquire()
            for e in range(n_epochs):
                active = [t for t in range(self.n) if bodies[t][e] is not None]
                if before_epoch is not None:
                    before_epoch(e)
                    _CURRENT = self  # (a nested dry-run scheduler restores it, but be explicit)
                if not active:
                    self.epoch += 1
                    continue
                self.state = ["ready" if t in active else "done" for t in range(self.n)]
                self.waiting = {}
                self.phase = {}
                self.cur_call = {}
                self.parked_site = {}
                self.local = {}
                self.cur = None
                first = self.policy.pick(self.step, active)
                self.switches.append([self.epoch, -1, 0, first])
                self.cur = first
                self.batons[first].release()
                self.ctrl.acquire()
                self.epoch += 1
                if self.deadlock or self.cap_hit:
                    break
        finally:
            # let threads that still wait for a later epoch leave
            stop[0] = True
            for t in range(self.n):
                try:
                    self.batons[t].release()
                except RuntimeError:
                    pass
            _CURRENT = prev_current

    def digest(self) -> str:
        return self.hash.hexdigest()
