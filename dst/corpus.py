"""
Workload corpus shared by all checks: seeded Markdown documents, option vectors.

Pure generator code: does not import flowmark. Every choice comes from the `random.Random`
passed in, in a fixed order, so a document is a pure function of the PRNG state.
"""

from __future__ import annotations

import os
import random
from typing import Any

WORDS = (
    "the quick brown fox jumps over a lazy dog while seven wizards quietly observe parsing "
    "markdown renderer state prefix buffer atomic rename journal ledger replica quorum timeout "
    "schedule thread baton yield cache evict footnote reference table column width sentence "
    "paragraph wrapping semantic break heading bullet quote alert fence tilde backtick"
).split()

ABBREV = ["e.g.", "i.e.", "Dr.", "etc.", "vs.", "U.S."]

# multi-byte UTF-8 (2, 3 and 4 byte sequences, combining mark, CJK next to Latin): a reader that
# splits input at arbitrary byte positions must reassemble these
NON_ASCII = ["na\u00efve", "caf\u00e9", "\u65e5\u672c\u8a9e", "\u2014", "\U0001f600", "e\u0301", "\u00dcber", "\u4e2d\u6587text", "\u201cquoted\u201d", "\u2026"]

HAZARD_WORDS = ["-", "+", "1.", "2)", "#", ">", "---", "===", "```", "|", "*", "~~~"]


def _word(rng: random.Random) -> str:
    return rng.choice(WORDS)


def sentence(rng: random.Random, lo: int = 4, hi: int = 16) -> str:
    n = rng.randint(lo, hi)
    ws = [_word(rng) for _ in range(n)]
    ws[0] = ws[0].capitalize()
    # sprinkle option-sensitive constructs
    r = rng.random()
    if r < 0.12:
        i = rng.randrange(n)
        ws[i] = '"' + ws[i]
        j = rng.randrange(i, n)
        ws[j] = ws[j] + '"'
    elif r < 0.22:
        ws[rng.randrange(n)] += "'s"
    elif r < 0.30:
        ws[rng.randrange(n)] = "don't"
    elif r < 0.38:
        ws[rng.randrange(n)] += "..."
    elif r < 0.44:
        ws[rng.randrange(n)] = "`" + _word(rng) + " " + _word(rng) + "`"
    elif r < 0.50:
        ws[rng.randrange(n)] = "**" + _word(rng) + "**"
    elif r < 0.55:
        ws[rng.randrange(n)] = "*" + _word(rng) + " " + _word(rng) + "*"
    elif r < 0.60:
        ws[rng.randrange(n)] = "[" + _word(rng) + "](https://example.com/" + _word(rng) + ' "t")'
    elif r < 0.64:
        ws[rng.randrange(n)] = rng.choice(ABBREV)
    elif r < 0.68:
        ws[rng.randrange(1, n) if n > 1 else 0] = rng.choice(HAZARD_WORDS)
    elif r < 0.71:
        ws[rng.randrange(n)] = "~~" + _word(rng) + "~~"
    elif r < 0.74:
        ws[rng.randrange(n)] = "{% " + _word(rng) + " %}"
    elif r < 0.77:
        ws[rng.randrange(n)] = "<!-- " + _word(rng) + " -->"
    elif r < 0.79:
        ws[rng.randrange(n)] = "&amp; &copy"
    elif r < 0.81:
        ws[rng.randrange(n)] = "<span>" + _word(rng) + "</span>"
    elif r < 0.90:
        ws[rng.randrange(n)] = rng.choice(NON_ASCII)
    end = rng.choice([".", ".", ".", "?", "!", ":"])
    return " ".join(ws) + end


def paragraph(rng: random.Random, lo: int = 1, hi: int = 5, raw_breaks: bool = True) -> str:
    sents = [sentence(rng) for _ in range(rng.randint(lo, hi))]
    text = " ".join(sents)
    if raw_breaks and rng.random() < 0.5:
        # hard-wrap the source at a random column so the formatter must re-flow
        col = rng.choice([30, 50, 72, 100])
        out, line = [], ""
        for w in text.split(" "):
            if line and len(line) + 1 + len(w) > col:
                out.append(line)
                line = w
            else:
                line = (line + " " + w) if line else w
        out.append(line)
        # a line that begins with a block marker would change the block structure of the
        # *input*; that is fine for these workloads (any text is a legal input).
        text = "\n".join(out)
    if rng.random() < 0.08:
        text = text.replace(". ", ".  \n", 1)  # hard break
    if rng.random() < 0.05:
        text = text.replace(". ", ".\\\n", 1)
    return text


def heading(rng: random.Random) -> str:
    lvl = rng.randint(1, 4)
    t = " ".join(_word(rng) for _ in range(rng.randint(1, 5))).capitalize()
    r = rng.random()
    if r < 0.25:
        t = "**" + t + "**"
    elif r < 0.32:
        t = t + " `" + _word(rng) + "`"
    if rng.random() < 0.12:
        return t + "\n" + ("=" if lvl == 1 else "-") * max(3, len(t))
    return "#" * lvl + " " + t


def bullet_list(rng: random.Random, depth: int = 0) -> str:
    loose = rng.random() < 0.4
    marker = rng.choice(["-", "*", "+"])
    n = rng.randint(2, 4)
    items = []
    for _ in range(n):
        body = paragraph(rng, 1, 2, raw_breaks=False)
        if rng.random() < 0.15:
            body = "[" + rng.choice([" ", "x"]) + "] " + body
        item = marker + " " + body
        if depth < 2 and rng.random() < 0.25:
            sub = bullet_list(rng, depth + 1) if rng.random() < 0.6 else ordered_list(rng, depth + 1)
            item += "\n" + "\n".join("  " + ln if ln else ln for ln in sub.split("\n"))
        if rng.random() < 0.12:
            item += "\n\n  " + paragraph(rng, 1, 2, raw_breaks=False)
        if rng.random() < 0.07:
            item += "\n\n  ```\n  code " + _word(rng) + "\n  ```"
        items.append(item)
    return ("\n\n" if loose else "\n").join(items)


def ordered_list(rng: random.Random, depth: int = 0) -> str:
    loose = rng.random() < 0.4
    start = rng.choice([1, 1, 1, 3, 7])
    delim = rng.choice([".", ".", ")"])
    n = rng.randint(2, 4)
    items = []
    for i in range(n):
        items.append(f"{start + i}{delim} " + paragraph(rng, 1, 2, raw_breaks=False))
    return ("\n\n" if loose else "\n").join(items)


def quote(rng: random.Random) -> str:
    r = rng.random()
    if r < 0.3:
        kind = rng.choice(["NOTE", "TIP", "WARNING", "important", "CAUTION"])
        body = paragraph(rng, 1, 3, raw_breaks=False)
        return f"> [!{kind}]\n> " + body
    inner = paragraph(rng, 1, 3, raw_breaks=False)
    if rng.random() < 0.3:
        inner += "\n\n" + bullet_list(rng, 2)
    return "\n".join("> " + ln if ln else ">" for ln in inner.split("\n"))


def fenced(rng: random.Random) -> str:
    fence = rng.choice(["```", "```", "~~~", "````"])
    info = rng.choice(["", "python", "sh", "text title"])
    lines = []
    for _ in range(rng.randint(1, 5)):
        r = rng.random()
        if r < 0.2:
            lines.append("")
        elif r < 0.3:
            lines.append("    indented  " + _word(rng) + '  "q"...')
        elif r < 0.36 and fence != "```":
            lines.append("```")
        else:
            lines.append(_word(rng) + " = '" + _word(rng) + "'  # don't...")
    return fence + info + "\n" + "\n".join(lines) + "\n" + fence


def indented_code(rng: random.Random) -> str:
    return "\n".join("    " + _word(rng) + "  " + _word(rng) for _ in range(rng.randint(1, 3)))


def table(rng: random.Random) -> str:
    cols = rng.randint(2, 4)
    hdr = "| " + " | ".join(_word(rng).capitalize() for _ in range(cols)) + " |"
    sep = "|" + "|".join(rng.choice([" --- ", ":---", "---:", ":--:"]) for _ in range(cols)) + "|"
    rows = []
    for _ in range(rng.randint(1, 3)):
        cells = []
        for _ in range(cols):
            c = _word(rng)
            r = rng.random()
            if r < 0.15:
                c = '"' + c + '"'
            elif r < 0.25:
                c = "`" + c + "|x`" if rng.random() < 0.3 else "`" + c + "`"
            elif r < 0.3:
                c = c + "'s"
            cells.append(c)
        rows.append("| " + " | ".join(cells) + " |")
    return "\n".join([hdr, sep, *rows])


def tag_block(rng: random.Random) -> str:
    kind = rng.random()
    name = _word(rng)
    if kind < 0.35:
        inner = rng.choice([bullet_list(rng, 2), paragraph(rng, 1, 2), table(rng)])
        return "{% " + name + ' id="' + _word(rng) + '" %}\n' + inner + "\n{% /" + name + " %}"
    if kind < 0.6:
        return "<!-- " + name + ' key="it\'s" -->\n' + paragraph(rng, 1, 2) + "\n<!-- /" + name + " -->"
    if kind < 0.8:
        return "{# " + sentence(rng) + " #}"
    return "{{ " + name + ".value | default('x') }} " + sentence(rng)


def html_block(rng: random.Random) -> str:
    return "<div class=\"" + _word(rng) + "\">\n" + sentence(rng) + "\n</div>"


def frontmatter(rng: random.Random) -> str:
    lines = ["---", "title: " + _word(rng) + " '" + _word(rng) + "'..."]
    if rng.random() < 0.5:
        lines.append("tags: [" + _word(rng) + ", " + _word(rng) + "]")
    lines.append("---")
    return "\n".join(lines)


# constructs whose rendering depends on document-level state: reference definitions


def ref_use(rng: random.Random, label: str) -> str:
    return sentence(rng, 3, 8) + " See [" + _word(rng) + "][" + label + "] and [" + label + "]. " + sentence(rng, 3, 8)


def ref_def(rng: random.Random, label: str) -> str:
    t = rng.random()
    title = "" if t < 0.4 else (' "' + _word(rng) + " title" + '"' if t < 0.8 else " '" + _word(rng) + "'")
    return "[" + label + "]: https://example.com/" + label + title


def fn_use(rng: random.Random, label: str) -> str:
    return sentence(rng, 3, 8) + " Claim[^" + label + "] made. " + sentence(rng, 3, 8)


def fn_def(rng: random.Random, label: str) -> str:
    body = paragraph(rng, 1, 3, raw_breaks=False)
    if rng.random() < 0.3:
        body += "\n\n    " + paragraph(rng, 1, 2, raw_breaks=False)
    return "[^" + label + "]: " + body


BLOCKS = [
    (paragraph, 30),
    (heading, 12),
    (bullet_list, 12),
    (ordered_list, 6),
    (quote, 8),
    (fenced, 6),
    (indented_code, 2),
    (table, 6),
    (tag_block, 6),
    (html_block, 2),
]
_BLOCK_FNS = [b for b, _ in BLOCKS]
_BLOCK_WTS = [w for _, w in BLOCKS]

_TESTDOC_BLOCKS: list[str] | None = None


def _testdoc_blocks() -> list[str]:
    """Slices of the repository's own reference document (if the checked tree has it)."""
    global _TESTDOC_BLOCKS
    if _TESTDOC_BLOCKS is None:
        from .core import repo_src

        p = os.path.join(os.path.dirname(repo_src()), "tests", "testdocs", "testdoc.orig.md")
        try:
            with open(p, encoding="utf-8") as f:
                txt = f.read()
            _TESTDOC_BLOCKS = [b for b in txt.split("\n\n") if b.strip()]
        except OSError:
            _TESTDOC_BLOCKS = []
    return _TESTDOC_BLOCKS


def gen_doc(rng: random.Random, nblocks: int | None = None, allow_front: bool = True) -> str:
    """A small Markdown document (0.1-3 kB)."""
    if nblocks is None:
        nblocks = rng.choice([1, 2, 3, 3, 4, 5, 6, 8])
    parts: list[str] = []
    labels: list[str] = []
    fns: list[str] = []
    tb = _testdoc_blocks()
    for _ in range(nblocks):
        r = rng.random()
        if r < 0.10:
            lab = _word(rng) + str(rng.randint(1, 9))
            labels.append(lab)
            parts.append(ref_use(rng, lab))
        elif r < 0.18:
            lab = str(rng.randint(1, 9)) if rng.random() < 0.5 else _word(rng)
            fns.append(lab)
            parts.append(fn_use(rng, lab))
        elif r < 0.26 and tb:
            i = rng.randrange(len(tb))
            k = rng.randint(1, 3)
            parts.append("\n\n".join(tb[i : i + k]))
        else:
            fn = rng.choices(_BLOCK_FNS, _BLOCK_WTS)[0]
            parts.append(fn(rng))
    for lab in labels:
        if rng.random() < 0.85:
            parts.insert(rng.randint(0, len(parts)), ref_def(rng, lab))
    for lab in fns:
        if rng.random() < 0.85:
            parts.append(fn_def(rng, lab))
    sep = "\n\n"
    text = sep.join(parts)
    if rng.random() < 0.12:
        # sloppy spacing: headings glued to following paragraph etc.
        text = text.replace("\n\n", "\n", rng.randint(1, 2))
    if allow_front and rng.random() < 0.1:
        text = frontmatter(rng) + "\n" + ("\n" if rng.random() < 0.7 else "") + text
    if rng.random() < 0.8:
        text += "\n"
    if rng.random() < 0.1:
        text = "\n" + text + "\n\n"
    return text


def gen_interference_pair(rng: random.Random) -> tuple[str, str]:
    """
    (A, B): B is built so that state leaked from A changes B's bytes: B uses labels only A
    defines; B starts where A's renderer state would matter (loose list / blank after heading /
    quote); A ends inside a list, footnote, quote or right after a heading.
    """
    lab = _word(rng) + str(rng.randint(1, 9))
    fn = str(rng.randint(1, 9))
    a_parts = [gen_doc(rng, rng.randint(1, 3), allow_front=False).strip("\n")]
    a_parts.append(ref_use(rng, lab))
    a_parts.append(ref_def(rng, lab))
    a_parts.append(fn_use(rng, fn))
    a_parts.append(fn_def(rng, fn))
    a_tail = rng.choice(["list", "nested", "quote", "heading", "footnote", "code"])
    if a_tail == "list":
        a_parts.append(bullet_list(rng, 2))
    elif a_tail == "nested":
        a_parts.append("- outer\n  - inner " + sentence(rng) + "\n    1. deep " + sentence(rng))
    elif a_tail == "quote":
        a_parts.append("> - quoted item " + sentence(rng) + "\n>   continued")
    elif a_tail == "heading":
        a_parts.append(heading(rng))
    elif a_tail == "footnote":
        a_parts.append(fn_def(rng, fn + "x"))
    else:
        a_parts.append("- item\n\n  ```\n  code\n  ```")
    a = "\n\n".join(a_parts) + "\n"

    b_head = rng.choice(["looselist", "heading", "quote", "para", "tightlist"])
    b_parts = []
    if b_head == "looselist":
        b_parts.append("- first " + sentence(rng) + "\n\n- second " + sentence(rng))
    elif b_head == "tightlist":
        b_parts.append("- first " + sentence(rng) + "\n- second " + sentence(rng))
    elif b_head == "heading":
        b_parts.append(heading(rng))
        b_parts.append(paragraph(rng, 1, 2))
    elif b_head == "quote":
        b_parts.append(quote(rng))
    else:
        b_parts.append(paragraph(rng, 2, 4))
    # uses of labels that only A defines (must stay literal text in B)
    b_parts.append(ref_use(rng, lab))
    b_parts.append(fn_use(rng, fn))
    b_parts.append(gen_doc(rng, rng.randint(1, 3), allow_front=False).strip("\n"))
    b = "\n\n".join(b_parts) + "\n"
    return a, b


# ---------------------------------------------------------------------------------------------
# options

WIDTHS = [0, 1, 20, 40, 88, 200]
LIST_SPACINGS = ["preserve", "loose", "tight"]
BOOL_OPTS = ["plaintext", "semantic", "cleanups", "smartquotes", "ellipses"]


def gen_options(rng: random.Random, allow_plaintext: bool = True) -> dict[str, Any]:
    o: dict[str, Any] = {
        "width": rng.choice(WIDTHS + [88, 88, 60, -1]),
        "plaintext": allow_plaintext and rng.random() < 0.1,
        "semantic": rng.random() < 0.5,
        "cleanups": rng.random() < 0.5,
        "smartquotes": rng.random() < 0.4,
        "ellipses": rng.random() < 0.4,
        "list_spacing": rng.choice(LIST_SPACINGS + ["preserve"]),
    }
    return o


AUTO_OPTS = {"semantic": True, "cleanups": True, "smartquotes": True, "ellipses": True}

# A fixed document in which every option coordinate is visible (used to validate that a
# generated document set is discriminating, and as a guaranteed-discriminating member).
DISCRIMINATING_DOC = """\
# **Bold heading**

- tight one
- tight two

1. loose one

2. loose two

He said "it's fine"... and left. This is a second sentence that is long enough to need wrapping at narrow widths, honestly. A third one follows here.
"""


# ---------------------------------------------------------------------------------------------
# probe battery: small fixed documents, each sensitive to one kind of leaked state. Used after a
# victim / history prefix so that whatever an earlier call left behind has a chance to show.

PROBE_DOCS = [
    # template tags and HTML comments on their own lines (tag newline handling)
    "<!-- note -->\nText right after a comment line.\n\n{% field kind=\"string\" id=\"name\" %}\nInside the field.\n{% /field %}\n\n{# jinja comment #}\nAfter it.\n",
    # starts with a table, then blank line and text; thematic break; link reference definition first
    "| a | b |\n| --- | --- |\n| 1 | 2 |\n\nSome text after the table. It has two sentences.\n\n* * *\n\nAfter the rule.\n",
    "[ref]: https://example.com/ref \"Title\"\n\nUses [ref] and [text][ref]. And [undefined] stays literal, as does [^nofn].\n",
    # tight, loose and nested lists
    "- tight one\n- tight two\n  - nested a\n  - nested b\n\n1. loose one\n\n2. loose two\n\n   second paragraph of two\n\n- [ ] task\n- [x] done\n",
    # footnotes and reference links
    "A claim[^1] and another[^note]. See [docs][d].\n\n[^1]: First footnote text that is long enough to be wrapped when the width is small, really.\n\n[^note]: Second.\n\n    Continued paragraph.\n\n[d]: https://example.com/docs\n",
    # headings (bold, setext), quote, alert
    "# **Bold title**\n\nIntro paragraph.\n\nSetext\n------\n\n> quoted line one\n> quoted line two\n\n> [!NOTE]\n> An alert body.\n\n## Last heading\n",
    # typography: quotes, apostrophes, ellipses, code spans
    "He said \"it's fine\"... and `code \"stays\"` here. 'Single' quotes too. Wait... what? Don't.\n",
    # fenced code inside a list, indented code, html block
    "- item\n\n  ```python\n  x = \"q\"  # don't...\n\n  y = 1\n  ```\n\n- next\n\n<div>\nraw html\n</div>\n\n    indented code\n",
    # long multi-sentence paragraph (semantic breaks, min line length rule)
    "Yes. Short start then a considerably longer sentence that will need to be wrapped at most of the widths in use here. No. Another sentence, e.g. with an abbreviation, follows it. OK.\n",
    # one paragraph dense with atomic constructs (links, code spans, tags, comments): exercises
    # per-paragraph tables/maps far beyond the usual one or two entries
    "Dense: [l0](https://e.x/0), `c1`, [l2](https://e.x/2), {% t3 %}, <!-- c4 -->, [l5](https://e.x/5), `c6 c6`, [l7](https://e.x/7 \"t7\"), {{ v8 }}, [l9](https://e.x/9), `c10`, [l11](https://e.x/11), {# c12 #}, [l13](https://e.x/13) and <b>b14</b> end.\n",
]


# every feature in one document: the very first call after a victim sees all of them
PROBE_ALL = "\n".join(PROBE_DOCS[i] for i in (1, 0, 3, 5, 4, 2, 6, 7, 8, 9))


# a second all-features document with the same constructs but different particulars (fence
# characters and info strings, labels, markers, alignments, tag names): two threads formatting
# PROBE_ALL and PROBE_ALL_B concurrently differ at every construct
PROBE_ALL_B = """\
| Left | Right | Mid |
|:-----|------:|:---:|
| x | "y" | `z|w` |

Text after the second table... with dots.

---

{% callout type="warn" %}
Body of the callout.
{% /callout %}

<!-- other -->
After another comment.

* star one
* star two

    + plus nested

3) paren three
4) paren four

Setext Top
==========

### **Bold** third level

> [!WARNING]
> Careful here.

> - quoted item
>   continued

Other claim[^b] and [^a]. See [site][s2] or [s2].

[^a]: Alpha note.
[^b]: Beta note that is also long enough to need wrapping at narrow widths, I'd say.

[s2]: <https://example.org/s2> 'Other'

'Tis "nice"... isn't it? `don't "touch"` this.

~~~~sh extra words
echo "hi"   # it's...
~~~
~~~~

1. item

   ~~~
   inner
   ~~~

<details>
<summary>sum</summary>
</details>

No. Yes. A long sentence comes second here and it must be wrapped at most of the widths that are in use. Fine.

Packed: `k0` then [m1](https://o.y/1) then `k2 k2` then [m3](https://o.y/3) then {% u4 %} then [m5](https://o.y/5) then `k6` then <!-- d7 --> then [m8](https://o.y/8) then `k9` then [m10](https://o.y/10 'q') then {{ w11 }} stop.
"""


def plain_sentence(rng: random.Random) -> str:
    ws = [_word(rng) for _ in range(rng.randint(4, 14))]
    ws[0] = ws[0].capitalize()
    return " ".join(ws) + rng.choice([".", ".", "?", "!"])


def gen_plain_doc(rng: random.Random) -> str:
    """A document without template tags, HTML or comments (paragraphs, lists, headings only)."""
    parts = []
    for _ in range(rng.randint(1, 5)):
        r = rng.random()
        if r < 0.5:
            parts.append(" ".join(plain_sentence(rng) for _ in range(rng.randint(1, 4))))
        elif r < 0.7:
            parts.append("\n".join("- " + plain_sentence(rng) for _ in range(rng.randint(2, 4))))
        elif r < 0.85:
            parts.append("#" * rng.randint(1, 3) + " " + plain_sentence(rng).rstrip(".?!"))
        else:
            depth = rng.randint(2, 6)
            parts.append("\n".join("  " * i + "- level " + str(i) for i in range(depth)))
    if rng.random() < 0.3:
        parts.append("## " + plain_sentence(rng).rstrip(".?!"))  # ends right after a heading
    return "\n\n".join(parts) + "\n"


SENTENCE_POOL = [
    "Yes.", "No.", "OK.", "Maybe so.", "Wait... what?", "It's \"fine\".",
    "Short start then a considerably longer sentence that will need to be wrapped at most of the widths in use here.",
    "Another sentence, e.g. with an abbreviation and a [link](https://example.com/x \"t\"), follows it.",
    "A sentence with `inline code span` and **bold words** and a trailing colon:",
    "The quick brown fox jumps over the lazy dog while seven wizards quietly observe the parser state!",
    "Does a question mark end it? It does.", "Tiny one.",
]


def gen_sentence_mix(rng: random.Random) -> str:
    """The same sentences in a different order / paragraph split each time: identical fragments
    recur across calls in different neighbourhoods (a memo keyed on too little shows here)."""
    k = rng.randint(4, 9)
    sents = [rng.choice(SENTENCE_POOL) for _ in range(k)]
    paras, cur = [], []
    for sn in sents:
        cur.append(sn)
        if rng.random() < 0.25:
            paras.append(" ".join(cur))
            cur = []
    if cur:
        paras.append(" ".join(cur))
    if rng.random() < 0.3:
        paras = ["- " + p for p in paras]
    return "\n\n".join(paras) + "\n"


def gen_big_doc(rng: random.Random, kb: int = 100) -> str:
    """A large document that is cheap to format: a long fenced code block between prose (exceeds
    pipe / buffer / chunk sizes of 64 KiB and more)."""
    lines = []
    size = 0
    i = 0
    while size < kb * 1024:
        ln = f"line {i} " + " ".join([_word(rng), _word(rng)] * 20) + ("  # caf\u00e9 \u65e5\u672c" if i % 7 == 0 else "")  # long lines: formatting cost is per line
        lines.append(ln)
        size += len(ln) + 1
        i += 1
    return "# Big " + _word(rng) + "\n\n" + paragraph(rng, 2, 3) + "\n\n```text\n" + "\n".join(lines) + "\n```\n\n" + paragraph(rng, 1, 2) + "\n"


def gen_deep_doc(rng: random.Random) -> str:
    """A list nested far deeper than the interpreter's default recursion limit allows the
    formatter to descend (the outcome - today a RecursionError - must be the same alone and
    concurrently)."""
    n = rng.choice([230, 260, 300])
    return "".join("  " * i + f"- item {i}\n" for i in range(n))
