"""
Engine B - simulated process over an interposed file system and streams.

The code under test (flowmark.cli.main / the file API) runs in-process inside a scratch tree.
Every file-system and stream operation that names a path under the scratch root goes through the
`Interposer`: it gets a sequence number, is appended to the op log, consults the fault plan
(errno / crash before / crash after / torn write then crash / short read / short write / EINTR),
and - for mutating operations - calls the observer so that invariants are evaluated on the real
tree "at every instant". Namespace operations are the kernel's own (tmpfs rename, mkdir, stat);
data operations run underneath Python's real BufferedReader/Writer/TextIOWrapper through `SimRaw`.

Process death: `SimCrash(BaseException)` + dead flag; afterwards every mutating operation is
refused without effect and buffered data reaching `SimRaw.write` is discarded, so `finally:` /
`__exit__` / GC clean-ups cannot touch the tree - what survives is what completed system calls left
behind (process-death model, not power loss).
"""

from __future__ import annotations

import builtins
import errno as _errno
import io
import os
import random
import stat as _stat
import sys
from typing import Any

_real_io_open = io.open
_real_builtins_open = builtins.open
_REAL: dict[str, Any] = {}
for _n in ("pwrite", "writev", "statvfs"):
    if hasattr(os, _n):
        _REAL[_n] = getattr(os, _n)
for _n in ("fsync", "fdatasync", "fchmod", "chown", "lchown", "fchown", "sendfile", "copy_file_range", "posix_fallocate", "ftruncate", "mkfifo", "removedirs", "makedirs"):
    if hasattr(os, _n):
        _REAL[_n] = getattr(os, _n)
for _n in (
    "open", "close", "read", "write", "fdopen", "replace", "rename", "link", "symlink", "unlink", "remove", "rmdir",
    "mkdir", "truncate", "chmod", "utime", "stat", "lstat", "scandir", "listdir", "readlink", "fsync", "ftruncate",
    "getcwd", "chdir", "access",
):
    _REAL[_n] = getattr(os, _n)


class _OtherDevice:
    """stat result of a file that is a mount point: same fields, another st_dev."""

    def __init__(self, st: os.stat_result) -> None:
        self._st = st

    def __getattr__(self, name: str) -> Any:
        v = getattr(self._st, name)
        return v + 1 if name == "st_dev" else v

    def __getitem__(self, i: Any) -> Any:
        v = tuple(self._st)
        v = v[:2] + (v[2] + 1,) + v[3:]
        return v[i]

    def __iter__(self) -> Any:
        return iter(self[:])

    def __len__(self) -> int:
        return len(self._st)


def _ino_of(fd: int) -> int | None:
    try:
        return os.fstat(fd).st_ino
    except (OSError, ValueError):
        return None


class SimCrash(BaseException):
    """The simulated process died at this operation."""


MUTATING = {"fsync", "open-w", "write", "close-w", "mkdir", "replace", "unlink", "rmdir", "truncate", "chmod", "utime", "link", "symlink", "os-open-w", "os-write", "spawn"}

ERRNOS = {
    "open-r": ["EACCES", "EMFILE", "ENOENT", "EIO"],
    "open-w": ["EACCES", "EMFILE", "ENOSPC", "EROFS", "EDQUOT"],
    "os-open-w": ["EACCES", "EMFILE", "ENOSPC", "EROFS"],
    "read": ["EIO"],
    "write": ["ENOSPC", "EDQUOT", "EIO"],
    "os-write": ["ENOSPC", "EIO"],
    "close-r": ["EIO"],
    "close-w": ["EIO", "ENOSPC"],
    "replace": ["EACCES", "EXDEV", "EBUSY", "ENOSPC", "EPERM"],
    "mkdir": ["EACCES", "ENOSPC", "EROFS"],
    "unlink": ["EACCES", "EBUSY"],
    "stat": ["EACCES", "EIO"],
    "scandir": ["EACCES", "EIO"],
    "stdout.write": ["EPIPE", "ENOSPC"],
    "spawn": ["ENOMEM", "EAGAIN"],
    "fsync": ["EIO", "ENOSPC"],
    "chmod": ["EPERM", "EACCES"],
    "truncate": ["EIO", "ENOSPC"],
    "stdin.read": ["EIO"],
}


class Op:
    __slots__ = ("k", "op", "paths", "extra", "outcome", "fault", "ino")

    def __init__(self, k: int, op: str, paths: list[str], extra: dict[str, Any]) -> None:
        self.k, self.op, self.paths, self.extra = k, op, paths, extra
        self.ino: int | None = None  # data writes only: inode written to (0 = a pipe); never recorded (not reproducible)
        self.outcome = "ok"
        self.fault: dict[str, Any] | None = None

    def rec(self) -> list[Any]:
        r: list[Any] = [self.k, self.op, self.paths, self.outcome]
        if self.extra:
            r.append(self.extra)
        return r


class Interposer:
    def __init__(self, root: str, faults: list[dict[str, Any]] | None = None, knobs: dict[str, Any] | None = None, observer: Any = None) -> None:
        self.root = os.path.realpath(root)
        self.faults_at: dict[int, dict[str, Any]] = {}
        self.sticky: dict[str, str] = {}  # op class -> errno name (from the moment a sticky fault fired)
        for f in faults or []:
            self.faults_at[int(f["at"])] = f
        self.knobs = knobs or {}
        self.observer = observer
        self.k = 0
        self.log: list[Op] = []
        self.dead = False
        self.cleanup = False
        self.active = False
        self.fired: list[dict[str, Any]] = []
        self.crash_at: int | None = None
        self.raws: list[SimRaw] = []
        self.fds: dict[int, str] = {}
        self.mount_paths: set[str] = set(self.knobs.get("mounts") or [])
        self.chunk_rng = random.Random(self.knobs.get("chunk_seed", 0))
        self.list_rng = random.Random(self.knobs.get("list_seed", 0))
        self.perm_changed = 0
        self.perm_total = 0
        self.legal_fires: dict[str, int] = {}
        self.untracked: list[str] = []
        self.std_sinks: Any = None  # (stdout PipeSink, stderr PipeSink) while a process runs
        self.std_source: Any = None

    # -- path helpers -------------------------------------------------------------------

    def norm(self, p: Any) -> str | None:
        """Path relative to the scratch root ('' for the root itself) or None when outside."""
        if isinstance(p, int):
            return None
        try:
            s = os.fspath(p)
        except TypeError:
            return None
        if isinstance(s, bytes):
            s = os.fsdecode(s)
        if not os.path.isabs(s):
            s = os.path.join(_REAL["getcwd"](), s)
        s = os.path.normpath(s)
        if s == self.root:
            return ""
        if s.startswith(self.root + os.sep):
            return s[len(self.root) + 1 :]
        return None

    def is_mount(self, rel: str | None, follow: bool) -> bool:
        """Is this path (relative to the root; parents may be symlinks) one of the mount-point files?"""
        if rel is None or not self.mount_paths:
            return False
        full = os.path.join(self.root, rel)
        was, self.active = self.active, False  # (the look-up itself is not an operation of the simulated process)
        try:
            real = os.path.realpath(full) if follow else os.path.join(os.path.realpath(os.path.dirname(full)), os.path.basename(full))
        finally:
            self.active = was
        return real.startswith(self.root + os.sep) and real[len(self.root) + 1 :] in self.mount_paths

    # -- the decision point -------------------------------------------------------------

    def begin(self, op: str, paths: list[str], **extra: Any) -> Op:
        """Start of an intercepted operation: number it, log it, apply 'before' faults."""
        if self.cleanup:
            o = Op(-1, op, paths, extra)
            return o
        if self.dead:
            raise SimCrash()
        o = Op(self.k, op, paths, extra)
        self.k += 1
        self.log.append(o)
        f = self.faults_at.get(o.k)
        st = self.sticky.get(op)
        if f is None and st is not None:
            f = {"kind": "errno", "errno": st, "sticky_echo": True}
        if f is not None:
            kind = f["kind"]
            o.fault = f
            if kind == "crash_before":
                self._fire(o, f)
                self._die(o)
            if kind == "errno" and op not in ("write", "os-write", "stdout.write", "close-w", "close-r"):
                # data-path operations apply their errno themselves (after partial effect)
                self._fire(o, f)
                if f.get("sticky"):
                    self.sticky[op] = f["errno"]
                o.outcome = f["errno"]
                self._observe(o)
                raise OSError(getattr(_errno, f["errno"]), os.strerror(getattr(_errno, f["errno"])) + " [injected]", paths[0] if paths else None)
        return o

    def end(self, o: Op) -> None:
        """End of an intercepted operation whose real effect has happened."""
        if self.cleanup or o.k < 0:
            return
        self._observe(o)
        f = o.fault
        if f is not None and f["kind"] == "crash_after":
            self._fire(o, f)
            self._die(o)

    def _fire(self, o: Op, f: dict[str, Any]) -> None:
        if not f.get("sticky_echo"):
            self.fired.append({"at": o.k, "op": o.op, "kind": f["kind"], "errno": f.get("errno"), "paths": o.paths})

    def _die(self, o: Op) -> None:
        if self.knobs.get("real_exit"):
            os._exit(137)  # cross-validation mode: the (forked) process really dies here
        self.dead = True
        self.crash_at = o.k
        o.outcome = "crash" if o.outcome == "ok" else o.outcome + "+crash"
        raise SimCrash()

    def _observe(self, o: Op) -> None:
        if self.observer is not None and (o.op in MUTATING):
            self.observer(o)

    def legal(self, name: str) -> None:
        self.legal_fires[name] = self.legal_fires.get(name, 0) + 1

    # -- installing ---------------------------------------------------------------------

    def install(self) -> None:
        ip = self
        self.active = True

        def path_op(real_name: str, opname: str, npaths: int = 1) -> Any:
            real = _REAL[real_name]

            def f(*a: Any, **kw: Any) -> Any:
                if not ip.active:
                    return real(*a, **kw)
                if kw.get("dir_fd") is not None or kw.get("src_dir_fd") is not None or kw.get("dst_dir_fd") is not None:
                    # dir_fd-relative call (shutil.rmtree, TemporaryDirectory clean-up ...): the path
                    # cannot be placed, but it is an operation of the simulated process all the same
                    o = ip.begin(opname, ["<dir_fd>/" + str(x) for x in a[:npaths]])
                    try:
                        r = real(*a, **kw)
                    except OSError as e:
                        o.outcome = _errno.errorcode.get(e.errno or 0, "OSError")
                        raise
                    ip.end(o)
                    return r
                ps = [ip.norm(x) for x in a[:npaths]]
                if all(p is None for p in ps):
                    return real(*a, **kw)
                o = ip.begin(opname, [p if p is not None else "<outside>" for p in ps])
                try:
                    if ip.mount_paths and opname in ("replace", "unlink") and any(ip.is_mount(p, False) for p in ps):
                        # a file that is a mount point (bind-mounted into a container) can be
                        # neither renamed, renamed over nor unlinked
                        raise OSError(_errno.EBUSY, "Device or resource busy", str(a[0]))
                    r = real(*a, **kw)
                except OSError as e:
                    o.outcome = _errno.errorcode.get(e.errno or 0, "OSError")
                    raise
                if ip.mount_paths and real_name in ("stat", "lstat") and ip.is_mount(ps[0], real_name == "stat" and kw.get("follow_symlinks", True)):
                    r = _OtherDevice(r)
                ip.end(o)
                return r

            f.__name__ = real_name
            return f

        os.replace = path_op("replace", "replace", 2)
        os.rename = path_op("rename", "replace", 2)
        os.link = path_op("link", "link", 2)
        os.symlink = path_op("symlink", "symlink", 2)
        os.unlink = path_op("unlink", "unlink")
        os.remove = path_op("remove", "unlink")
        os.rmdir = path_op("rmdir", "rmdir")
        os.mkdir = path_op("mkdir", "mkdir")
        os.truncate = path_op("truncate", "truncate")
        os.chmod = path_op("chmod", "chmod")
        os.utime = path_op("utime", "utime")
        os.stat = path_op("stat", "stat")
        os.lstat = path_op("lstat", "stat")
        os.readlink = path_op("readlink", "stat")
        _access = path_op("access", "stat")

        def access(path: Any, mode: int, **kw: Any) -> bool:
            r = _access(path, mode, **kw)
            fake = ip.knobs.get("euid")
            if not r or fake in (None, 0) or not ip.active:
                return r
            # the real process is root, so the kernel says yes to everything; answer as the
            # pretended user would be answered (owner / other permission bits)
            try:
                st = _REAL["stat"](path)
            except OSError:
                return r
            bits = (st.st_mode >> 6) & 7 if st.st_uid == fake else st.st_mode & 7
            need = (4 if mode & os.R_OK else 0) | (2 if mode & os.W_OK else 0) | (1 if mode & os.X_OK else 0)
            return (bits & need) == need

        os.access = access  # type: ignore[assignment]
        for nm in ("chown", "lchown"):
            if nm in _REAL:
                setattr(os, nm, path_op(nm, "chmod"))

        def fd_op(real_name: str, opname: str) -> Any:
            real = _REAL[real_name]

            def f(fd: Any, *a: Any, **kw: Any) -> Any:
                if not ip.active or not isinstance(fd, int):
                    return real(fd, *a, **kw)
                o = ip.begin(opname, [ip.fds.get(fd, "<fd>")], via="os." + real_name)
                r = real(fd, *a, **kw)
                ip.end(o)
                return r

            f.__name__ = real_name
            return f

        ip._fd_patched = []
        for nm, opn in (("fsync", "fsync"), ("fdatasync", "fsync"), ("fchmod", "chmod"), ("fchown", "chmod"), ("ftruncate", "truncate"), ("posix_fallocate", "truncate")):
            if nm in _REAL:
                setattr(os, nm, fd_op(nm, opn))
                ip._fd_patched.append(nm)

        def data_mover(real_name: str) -> Any:
            real = _REAL[real_name]

            def f(*a: Any, **kw: Any) -> Any:
                if not ip.active:
                    return real(*a, **kw)
                o = ip.begin("os-write", ["<fd>"], via="os." + real_name)
                r = real(*a, **kw)
                ip.end(o)
                return r

            return f

        for nm in ("sendfile", "copy_file_range", "pwrite", "writev"):
            if nm in _REAL:
                setattr(os, nm, data_mover(nm))
                ip._fd_patched.append(nm)
        # free-space probes are environment input: some workloads see an almost full disk
        if self.knobs.get("low_disk"):
            import collections
            import shutil as _sh

            self._disk_saved = (_sh.disk_usage, os.statvfs)
            du = collections.namedtuple("usage", "total used free")
            _sh.disk_usage = lambda path: du(10**9, 10**9 - 512, 512)  # type: ignore[assignment]
            real_statvfs = os.statvfs

            def statvfs(path: Any) -> Any:
                r = real_statvfs(path)
                return os.statvfs_result((r.f_bsize, r.f_frsize, r.f_blocks, 1, 1, r.f_files, r.f_ffree, r.f_favail, r.f_flag, r.f_namemax))

            os.statvfs = statvfs  # type: ignore[assignment]

        def scandir(path: Any = ".") -> Any:
            p = ip.norm(path) if ip.active else None
            if p is None:
                return _REAL["scandir"](path)
            o = ip.begin("scandir", [p])
            with _REAL["scandir"](path) as it:
                entries = list(it)
            perm = ip._permute(entries)
            ip.end(o)
            return _FakeScandir(perm)

        def listdir(path: Any = ".") -> Any:
            p = ip.norm(path) if ip.active else None
            if p is None:
                return _REAL["listdir"](path)
            o = ip.begin("scandir", [p])
            names = _REAL["listdir"](path)
            perm = ip._permute(names)
            ip.end(o)
            return perm

        os.scandir = scandir  # type: ignore[assignment]
        os.listdir = listdir  # type: ignore[assignment]

        def os_open(path: Any, flags: int, mode: int = 0o777, *, dir_fd: Any = None) -> int:
            p = ip.norm(path) if (ip.active and dir_fd is None) else None
            if p is None:
                return _REAL["open"](path, flags, mode, dir_fd=dir_fd)
            w = bool(flags & (os.O_WRONLY | os.O_RDWR | os.O_CREAT | os.O_TRUNC | os.O_APPEND))
            o = ip.begin("os-open-w" if w else "open-r", [p], via="os.open")
            fd = _REAL["open"](path, flags, mode)
            ip.fds[fd] = p
            ip.end(o)
            return fd

        def os_write(fd: int, data: Any) -> int:
            if ip.active and fd in (1, 2) and ip.std_sinks is not None:
                # code that bypasses sys.stdout and writes to the descriptor: same simulated pipe
                return ip.std_sinks[fd - 1].write(data)
            p = ip.fds.get(fd) if ip.active else None
            if p is None:
                return _REAL["write"](fd, data)
            o = ip.begin("os-write", [p], n=len(data))
            o.ino = _ino_of(fd)
            n = ip._apply_write(o, data, lambda b: _REAL["write"](fd, b))
            ip.end(o)
            return n

        def os_close(fd: int) -> None:
            p = ip.fds.pop(fd, None) if ip.active else None
            _REAL["close"](fd)
            if p is not None and not ip.dead and not ip.cleanup:
                o = ip.begin("close-w", [p], via="os.close")
                ip.end(o)

        def os_read(fd: int, n: int) -> bytes:
            if ip.active and fd == 0 and ip.std_source is not None:
                buf = bytearray(n)
                got = ip.std_source.readinto(buf)
                return bytes(buf[:got])
            return _REAL["read"](fd, n)

        os.read = os_read  # type: ignore[assignment]
        os.open = os_open  # type: ignore[assignment]
        os.write = os_write  # type: ignore[assignment]
        os.close = os_close  # type: ignore[assignment]

        # process identity is environment too: code may branch on "am I root / the owner?"
        self._id_saved = {}
        if self.knobs.get("euid") is not None:
            fake = int(self.knobs["euid"])
            for nm in ("geteuid", "getuid", "getegid", "getgid"):
                self._id_saved[nm] = getattr(os, nm)
                setattr(os, nm, (lambda v=fake: v))

        def sim_open(file: Any, mode: str = "r", buffering: int = -1, encoding: Any = None, errors: Any = None, newline: Any = None, closefd: bool = True, opener: Any = None) -> Any:
            if not ip.active:
                return _real_io_open(file, mode, buffering, encoding, errors, newline, closefd, opener)
            if isinstance(file, int):
                p = ip.fds.get(file)
                if p is None:
                    return _real_io_open(file, mode, buffering, encoding, errors, newline, closefd, opener)
                if closefd:
                    ip.fds.pop(file, None)
                return ip._build_file(file, p, mode, buffering, encoding, errors, newline, closefd, opener, already_open=True)
            p = ip.norm(file)
            if p is None:
                return _real_io_open(file, mode, buffering, encoding, errors, newline, closefd, opener)
            return ip._build_file(file, p, mode, buffering, encoding, errors, newline, closefd, opener)

        io.open = sim_open  # type: ignore[assignment]
        builtins.open = sim_open  # type: ignore[assignment]

        # helper processes (cp/mv via subprocess, os.system): one opaque mutating operation each
        import subprocess as _sp

        real_popen_init = _sp.Popen.__init__
        real_system = os.system
        ip._spawn_saved = (real_popen_init, real_system)

        def popen_init(self_: Any, *a: Any, **kw: Any) -> None:
            if not ip.active:
                return real_popen_init(self_, *a, **kw)
            o = ip.begin("spawn", ["<subprocess>"], argv=str(a[0] if a else kw.get("args"))[:200])
            real_popen_init(self_, *a, **kw)
            try:
                self_.wait()  # the helper's effect belongs to this operation
            except Exception:  # noqa: BLE001
                pass
            ip.end(o)

        def system(cmd: Any) -> int:
            if not ip.active:
                return real_system(cmd)
            o = ip.begin("spawn", ["<system>"], argv=str(cmd)[:200])
            r = real_system(cmd)
            ip.end(o)
            return r

        _sp.Popen.__init__ = popen_init  # type: ignore[method-assign]
        os.system = system  # type: ignore[assignment]
        try:
            import shutil

            self._shutil_flags = {n: getattr(shutil, n) for n in ("_USE_CP_SENDFILE", "_USE_CP_COPY_FILE_RANGE") if hasattr(shutil, n)}
            for n in self._shutil_flags:
                setattr(shutil, n, False)
        except Exception:  # noqa: BLE001
            self._shutil_flags = {}

    def uninstall(self) -> None:
        self.active = False
        io.open = _real_io_open  # type: ignore[assignment]
        builtins.open = _real_builtins_open  # type: ignore[assignment]
        for nm, fn in getattr(self, "_id_saved", {}).items():
            setattr(os, nm, fn)
        if getattr(self, "_disk_saved", None):
            import shutil as _sh

            _sh.disk_usage, os.statvfs = self._disk_saved  # type: ignore[assignment]
        for nm in getattr(self, "_fd_patched", []) + ["chown", "lchown"]:
            if nm in _REAL:
                setattr(os, nm, _REAL[nm])
        try:
            import subprocess as _sp

            _sp.Popen.__init__, os.system = self._spawn_saved  # type: ignore[method-assign]
        except Exception:  # noqa: BLE001
            pass
        for n in ("open", "close", "read", "write", "replace", "rename", "link", "symlink", "unlink", "remove", "rmdir", "mkdir", "truncate", "chmod", "utime", "stat", "lstat", "scandir", "listdir", "readlink", "access"):
            setattr(os, n, _REAL[n])
        try:
            import shutil

            for n, v in self._shutil_flags.items():
                setattr(shutil, n, v)
        except Exception:  # noqa: BLE001
            pass

    def finish(self) -> None:
        """After the simulated process ended: release real fds without letting data through."""
        self.cleanup = True
        for r in self.raws:
            r.force_close()
        for fd in list(self.fds):
            try:
                _REAL["close"](fd)
            except OSError:
                pass
        self.fds.clear()

    # -- helpers ------------------------------------------------------------------------

    def _permute(self, entries: list[Any]) -> list[Any]:
        mode = self.knobs.get("listing", "shuffle")
        out = list(entries)
        if mode == "shuffle":
            self.list_rng.shuffle(out)
        elif mode == "reverse":
            out.reverse()
        elif mode == "sorted":
            out.sort(key=lambda e: e if isinstance(e, str) else e.name)
        self.perm_total += 1
        if [getattr(e, "name", e) for e in out] != [getattr(e, "name", e) for e in entries]:
            self.perm_changed += 1
        return out

    def _build_file(self, file: Any, p: str, mode: str, buffering: int, encoding: Any, errors: Any, newline: Any, closefd: bool, opener: Any, already_open: bool = False) -> Any:
        modes = set(mode)
        if modes - set("axrwb+tU") or len(mode) > len(modes):
            raise ValueError("invalid mode: %r" % mode)
        creating, reading, writing, appending = "x" in modes, "r" in modes, "w" in modes, "a" in modes
        updating, text, binary = "+" in modes, "t" in modes, "b" in modes
        if text and binary:
            raise ValueError("can't have text and binary mode at once")
        if creating + reading + writing + appending > 1:
            raise ValueError("can't have read/write/append mode at once")
        if not (creating or reading or writing or appending):
            raise ValueError("must have exactly one of read/write/append mode")
        if binary and encoding is not None:
            raise ValueError("binary mode doesn't take an encoding argument")
        rawmode = ("x" if creating else "") + ("r" if reading else "") + ("w" if writing else "") + ("a" if appending else "") + ("+" if updating else "")
        w = creating or writing or appending or updating
        if not already_open:
            o = self.begin("open-w" if w else "open-r", [p], mode=rawmode)
            fio = io.FileIO(file, rawmode, closefd=closefd, opener=opener)
            try:
                self.end(o)
            except SimCrash:
                # the open (create/truncate) has happened; the fd dies with the process
                try:
                    fio.close()
                except OSError:
                    pass
                raise
        else:
            fio = io.FileIO(file, rawmode, closefd=closefd)
        raw = SimRaw(self, fio, p, w, reading or updating)
        self.raws.append(raw)
        bufsize = buffering
        line_buffering = False
        if buffering == 1 and not binary:
            bufsize, line_buffering = -1, True
        if bufsize < 0:
            bufsize = int(self.knobs.get("bufsize", io.DEFAULT_BUFFER_SIZE))
        if bufsize == 0:
            if binary:
                return raw
            raise ValueError("can't have unbuffered text I/O")
        if updating:
            buf: Any = io.BufferedRandom(raw, bufsize)
        elif w:
            buf = io.BufferedWriter(raw, bufsize)
        else:
            buf = io.BufferedReader(raw, bufsize)
        if binary:
            return buf
        t = io.TextIOWrapper(buf, encoding, errors, newline, line_buffering)
        t.mode = mode  # type: ignore[misc]
        return t

    def chunk_limit(self, n: int) -> int:
        """Legal short read/write: how many of n bytes this raw call may transfer."""
        mode = self.knobs.get("chunking", "none")
        if mode == "none" or n <= 1:
            return n
        if mode == "byte":
            return 1
        if mode == "thirds":
            return max(1, (n + 2) // 3)  # every transfer is split in a few pieces (deterministic)
        r = self.chunk_rng.random()
        if r < 0.5:
            return n
        lim = self.chunk_rng.choice([1, 2, 7, 64, 1000, 4096])
        return max(1, min(n, lim))

    def maybe_eintr(self) -> bool:
        p = self.knobs.get("eintr", 0.0)
        return bool(p) and self.chunk_rng.random() < p

    def _apply_write(self, o: Op, data: Any, real_write: Any) -> int:
        """Common write path (SimRaw.write / os.write / stdout): faults, then legal short writes."""
        mv = memoryview(data).cast("B")
        n = len(mv)
        f = o.fault
        if f is not None:
            kind = f["kind"]
            if kind == "torn_crash":
                j = min(n, max(0, int(f.get("bytes", n // 2))))
                if j:
                    real_write(mv[:j])
                o.extra["torn"] = j
                self._fire(o, f)
                self._observe(o)
                self._die(o)
            if kind == "errno":
                j = min(n, max(0, int(f.get("bytes", 0))))
                if j:
                    real_write(mv[:j])
                self._fire(o, f)
                if f.get("sticky"):
                    self.sticky[o.op] = f["errno"]
                o.outcome = f["errno"]
                o.extra["partial"] = j
                self._observe(o)
                raise OSError(getattr(_errno, f["errno"]), os.strerror(getattr(_errno, f["errno"])) + " [injected]")
            if kind == "short_write":
                j = min(n, max(1, int(f.get("bytes", 1))))
                self._fire(o, f)
                o.extra["short"] = j
                return int(real_write(mv[:j]))
        if self.maybe_eintr():
            self.legal("eintr-write")
            o.outcome = "EINTR"
            raise InterruptedError(_errno.EINTR, "Interrupted system call [injected]")
        lim = self.chunk_limit(n)
        if lim < n:
            self.legal("short-write")
            o.extra["short"] = lim
        return int(real_write(mv[:lim]))


class _FakeScandir:
    def __init__(self, entries: list[Any]) -> None:
        self._it = iter(entries)

    def __iter__(self) -> "_FakeScandir":
        return self

    def __next__(self) -> Any:
        return next(self._it)

    def close(self) -> None:
        self._it = iter(())

    def __enter__(self) -> "_FakeScandir":
        return self

    def __exit__(self, *a: Any) -> None:
        self.close()


class SimRaw(io.RawIOBase):
    """Raw file whose read/write/close are intercepted operations; sits under real buffering."""

    def __init__(self, ip: Interposer, fio: io.FileIO, p: str, writable: bool, readable: bool) -> None:
        super().__init__()
        self._ip, self._f, self._p = ip, fio, p
        self._w, self._r = writable, readable
        self.name = fio.name
        self.mode = fio.mode

    def readable(self) -> bool:
        return self._r

    def writable(self) -> bool:
        return self._w

    def seekable(self) -> bool:
        return self._f.seekable()

    def fileno(self) -> int:
        return self._f.fileno()

    def isatty(self) -> bool:
        return False

    def seek(self, pos: int, whence: int = 0) -> int:
        return self._f.seek(pos, whence)

    def tell(self) -> int:
        return self._f.tell()

    def truncate(self, size: int | None = None) -> int:
        ip = self._ip
        o = ip.begin("truncate", [self._p])
        r = self._f.truncate(size)
        ip.end(o)
        return r

    def readinto(self, b: Any) -> int:
        ip = self._ip
        mv = memoryview(b).cast("B")
        o = ip.begin("read", [self._p], n=len(mv))
        f = o.fault
        lim = len(mv)
        if f is not None and f["kind"] == "short_read":
            lim = max(1, min(lim, int(f.get("bytes", 1))))
            ip._fire(o, f)
        elif ip.maybe_eintr():
            ip.legal("eintr-read")
            o.outcome = "EINTR"
            raise InterruptedError(_errno.EINTR, "Interrupted system call [injected]")
        else:
            lim2 = ip.chunk_limit(lim)
            if lim2 < lim:
                ip.legal("short-read")
                lim = lim2
        data = self._f.read(lim)
        n = len(data) if data else 0
        mv[:n] = data
        o.extra["got"] = n
        ip.end(o)
        return n

    def write(self, b: Any) -> int:
        ip = self._ip
        if ip.cleanup:
            return len(memoryview(b).cast("B"))
        o = ip.begin("write", [self._p], n=len(memoryview(b).cast("B")))
        o.ino = _ino_of(self._f.fileno())
        n = ip._apply_write(o, b, self._f.write)
        ip.end(o)
        return n

    def close(self) -> None:
        if self.closed:
            return
        ip = self._ip
        if ip.cleanup or ip.dead:
            self._release()
            if ip.dead and not ip.cleanup:
                raise SimCrash()
            return
        opn = "close-w" if self._w else "close-r"
        try:
            o = ip.begin(opn, [self._p])
        except BaseException:
            # died (or failed) before close(): the kernel releases the descriptor anyway
            self._release()
            raise
        self._release()
        f = o.fault
        if f is not None and f["kind"] == "errno":
            ip._fire(o, f)
            o.outcome = f["errno"]
            ip._observe(o)
            raise OSError(getattr(_errno, f["errno"]), os.strerror(getattr(_errno, f["errno"])) + " [injected]")
        ip.end(o)

    def _release(self) -> None:
        try:
            super().close()
        except BaseException:  # noqa: BLE001
            pass
        try:
            self._f.close()
        except OSError:
            pass

    def force_close(self) -> None:
        try:
            if not self.closed:
                super().close()
        except BaseException:  # noqa: BLE001
            pass
        try:
            self._f.close()
        except OSError:
            pass


# ---------------------------------------------------------------------------------------------
# streams


class PipeSource(io.RawIOBase):
    """stdin: bytes arriving in chunks the simulator chooses."""

    def __init__(self, ip: Interposer, data: bytes) -> None:
        super().__init__()
        self._ip, self._data, self._pos = ip, data, 0
        self.name = "<stdin>"
        self.mode = "rb"

    def readable(self) -> bool:
        return True

    def fileno(self) -> int:
        raise io.UnsupportedOperation("fileno")

    def isatty(self) -> bool:
        return False

    def readinto(self, b: Any) -> int:
        ip = self._ip
        mv = memoryview(b).cast("B")
        o = ip.begin("stdin.read", ["<stdin>"], n=len(mv))
        lim = len(mv)
        f = o.fault
        if f is not None and f["kind"] == "short_read":
            lim = max(1, min(lim, int(f.get("bytes", 1))))
            ip._fire(o, f)
        elif ip.maybe_eintr():
            ip.legal("eintr-read")
            raise InterruptedError(_errno.EINTR, "Interrupted system call [injected]")
        else:
            lim2 = ip.chunk_limit(lim)
            if lim2 < lim:
                ip.legal("short-read")
                lim = lim2
        chunk = self._data[self._pos : self._pos + lim]
        self._pos += len(chunk)
        mv[: len(chunk)] = chunk
        o.extra["got"] = len(chunk)
        ip.end(o)
        return len(chunk)


class PipeSink(io.RawIOBase):
    """stdout / stderr: collects bytes; each raw write is an intercepted operation."""

    def __init__(self, ip: Interposer, opname: str) -> None:
        super().__init__()
        self._ip, self._op = ip, opname
        self.data = bytearray()
        self.name = "<" + opname.split(".")[0] + ">"
        self.mode = "wb"

    def writable(self) -> bool:
        return True

    def fileno(self) -> int:
        raise io.UnsupportedOperation("fileno")

    def isatty(self) -> bool:
        return False

    def write(self, b: Any) -> int:
        ip = self._ip
        mv = memoryview(b).cast("B")
        if ip.cleanup or self._op == "stderr.write":
            self.data += bytes(mv)
            return len(mv)
        o = ip.begin(self._op, [self.name], n=len(mv))

        def real_write(part: Any) -> int:
            self.data += bytes(part)
            return len(part)

        n = ip._apply_write(o, b, real_write)
        ip.end(o)
        return n


def make_streams(ip: Interposer, stdin_bytes: bytes) -> tuple[Any, Any, Any, PipeSink, PipeSink]:
    bufsize = int(ip.knobs.get("bufsize", io.DEFAULT_BUFFER_SIZE))
    stdin = io.TextIOWrapper(io.BufferedReader(PipeSource(ip, stdin_bytes), bufsize), encoding="utf-8", errors="surrogateescape", newline="\n")
    out_sink = PipeSink(ip, "stdout.write")
    err_sink = PipeSink(ip, "stderr.write")
    stdout = io.TextIOWrapper(io.BufferedWriter(out_sink, bufsize), encoding="utf-8", errors="surrogateescape", newline="\n")
    stderr = io.TextIOWrapper(io.BufferedWriter(err_sink, bufsize), encoding="utf-8", errors="backslashreplace", newline="\n", line_buffering=True)
    return stdin, stdout, stderr, out_sink, err_sink


# ---------------------------------------------------------------------------------------------
# running the simulated process


class ProcResult:
    def __init__(self) -> None:
        self.exit: Any = None  # int exit code, or "crash", or "exc:<Type>"
        self.stdout = b""
        self.stderr = b""
        self.crashed = False
        self.exc: str | None = None

    def exit_class(self) -> str:
        if self.crashed:
            return "crash"
        if isinstance(self.exit, int):
            return "0" if self.exit == 0 else "nonzero"
        return "nonzero"


def discovered_env_names(src: str) -> list[str]:
    """Environment variables the code under test reads (string literals next to environ/getenv in
    its source): the environment is an input of the process, so workloads vary exactly these."""
    import re

    pat = re.compile(r"""(?:environ\.get\(|environ\[|getenv\(|environ\.pop\(|in\s+os\.environ)\s*["']([A-Za-z_][A-Za-z0-9_]*)["']|["']([A-Za-z_][A-Za-z0-9_]*)["']\s+(?:not\s+)?in\s+os\.environ""")
    names: set[str] = set()
    for dp, _dn, fns in os.walk(os.path.join(src, "flowmark")):
        for fn_ in fns:
            if fn_.endswith(".py"):
                try:
                    with _real_io_open(os.path.join(dp, fn_), encoding="utf-8") as f:
                        for m in pat.finditer(f.read()):
                            names.add(m.group(1) or m.group(2))
                except OSError:
                    pass
    return sorted(names)


def run_process(ip: Interposer, fn: Any, stdin_bytes: bytes = b"", cwd: str | None = None, uid_seed: int = 0, env: dict[str, str] | None = None) -> ProcResult:
    """
    Run fn() as the simulated process: install the interposer and fake streams, chdir, seed
    strif's uid stream; afterwards flush stdout as interpreter exit would (unless dead), release
    descriptors, restore everything.
    """
    res = ProcResult()
    try:
        import strif.strif as _ss

        saved_rand = _ss._RANDOM
        _ss._RANDOM = random.Random(uid_seed)
    except Exception:  # noqa: BLE001
        _ss = None
        saved_rand = None
    # tempfile's random name sequence is a nondeterminism source too (mkstemp-based writers)
    import tempfile as _tf

    saved_seq = getattr(_tf, "_name_sequence", None)
    try:
        seq = _tf._RandomNameSequence()  # type: ignore[attr-defined]
        seq._rng = random.Random(uid_seed ^ 0x5EED)
        seq._rng_pid = os.getpid()
        _tf._name_sequence = seq  # type: ignore[attr-defined]
    except Exception:  # noqa: BLE001
        pass
    old = (sys.stdin, sys.stdout, sys.stderr)
    old_cwd = _REAL["getcwd"]()
    stdin, stdout, stderr, out_sink, err_sink = make_streams(ip, stdin_bytes)
    if cwd is not None:
        _REAL["chdir"](cwd)
    ip.std_sinks = (out_sink, err_sink)
    ip.std_source = stdin.buffer.raw
    # what a real interpreter does after main() returns belongs to the simulated process too:
    # non-daemon threads are joined and atexit handlers run (a writer finishing its work there
    # must meet the same faults); handlers registered before this point are not the process'
    import atexit
    import threading as _thr

    try:
        atexit._clear()
    except Exception:  # noqa: BLE001
        pass
    threads_before = set(_thr.enumerate())
    ip.install()
    sys.stdin, sys.stdout, sys.stderr = stdin, stdout, stderr
    saved_env = {k_: os.environ.get(k_) for k_ in (env or {})}
    os.environ.update(env or {})
    try:
        try:
            rc = fn()
            res.exit = 0 if rc is None else rc
        except SystemExit as e:
            res.exit = e.code if isinstance(e.code, int) else (0 if e.code is None else 1)
        except SimCrash:
            res.crashed = True
            res.exit = "crash"
        except BaseException as e:  # noqa: BLE001 - an uncaught exception ends a real process with status 1
            res.exit = 1
            res.exc = type(e).__name__ + ": " + str(e)[:200]
        if not ip.dead:
            try:
                for t in _thr.enumerate():
                    if t not in threads_before and not t.daemon and t is not _thr.current_thread():
                        t.join(timeout=20)
                atexit._run_exitfuncs()
            except SimCrash:
                res.crashed = True
                res.exit = "crash"
            except BaseException:  # noqa: BLE001
                pass
        # interpreter shutdown: flush std streams (a dead process flushes nothing)
        if not ip.dead:
            try:
                stdout.flush()
            except SimCrash:
                res.crashed = True
                res.exit = "crash"
            except OSError as e:
                # CPython: failure to flush stdout at exit -> exit status 120
                if isinstance(res.exit, int) and res.exit == 0:
                    res.exit = 120
                res.exc = (res.exc or "") + f" stdout flush: {type(e).__name__}"
            try:
                stderr.flush()
            except BaseException:  # noqa: BLE001
                pass
    finally:
        for k_, v_ in saved_env.items():
            if v_ is None:
                os.environ.pop(k_, None)
            else:
                os.environ[k_] = v_
        sys.stdin, sys.stdout, sys.stderr = old
        ip.finish()
        ip.uninstall()
        _REAL["chdir"](old_cwd)
        if _ss is not None:
            _ss._RANDOM = saved_rand
        try:
            _tf._name_sequence = saved_seq  # type: ignore[attr-defined]
        except Exception:  # noqa: BLE001
            pass
        for s in (stdin, stdout, stderr):
            try:
                s.close()
            except BaseException:  # noqa: BLE001
                pass
    res.stdout = bytes(out_sink.data)
    res.stderr = bytes(err_sink.data)
    return res


# ---------------------------------------------------------------------------------------------
# reading the real tree (never through the interposer)


def snapshot(root: str) -> dict[str, Any]:
    """path (relative) -> ('f', bytes, inode) | ('l', target) | ('d',)"""
    out: dict[str, Any] = {}
    stack = [""]
    while stack:
        rel = stack.pop()
        full = os.path.join(root, rel) if rel else root
        with _REAL["scandir"](full) as it:
            for e in it:
                r = os.path.join(rel, e.name) if rel else e.name
                if e.is_symlink():
                    out[r] = ("l", _REAL["readlink"](e.path))
                elif e.is_dir(follow_symlinks=False):
                    out[r] = ("d",)
                    stack.append(r)
                else:
                    out[r] = ("f", read_bytes(e.path), e.inode())
    return out


def read_bytes(path: str) -> bytes | None:
    try:
        with _real_io_open(path, "rb") as f:
            return f.read()
    except OSError:
        return None


def lstat_kind(path: str) -> str:
    try:
        st = _REAL["lstat"](path)
    except OSError:
        return "absent"
    if _stat.S_ISLNK(st.st_mode):
        return "link"
    if _stat.S_ISDIR(st.st_mode):
        return "dir"
    return "file"


def build_tree(root: str, spec: dict[str, Any]) -> None:
    """spec: rel path -> {'f': bytes} | {'l': target} | {'d': 1}; parents created as needed."""
    for rel in sorted(spec, key=lambda r: (r.count("/"), r)):
        ent = spec[rel]
        full = os.path.join(root, rel)
        os.makedirs(os.path.dirname(full), exist_ok=True)
        if "d" in ent:
            os.makedirs(full, exist_ok=True)
        elif "l" in ent:
            _REAL["symlink"](ent["l"], full)
        elif "hl" in ent:
            continue
        else:
            with _real_io_open(full, "wb") as f:
                f.write(ent["f"])
    for rel, ent in spec.items():
        if "hl" in ent:  # hard link to another file of the spec
            _REAL["link"](os.path.join(root, ent["hl"]), os.path.join(root, rel))
    for rel, ent in spec.items():
        if ent.get("mode") is not None:  # permission bits (read-only, executable, setgid ...)
            try:
                _REAL["chmod"](os.path.join(root, rel), int(ent["mode"]))
            except OSError:
                pass
    for rel, ent in spec.items():
        if ent.get("xattr"):  # user extended attributes (tags, origin URL ...)
            try:
                os.setxattr(os.path.join(root, rel), "user.xdg.tags", b"verif", follow_symlinks=False)
            except (OSError, AttributeError):
                pass
    for rel, ent in spec.items():
        if ent.get("mtime") is not None:  # an old / future modification time
            try:
                _REAL["utime"](os.path.join(root, rel), (float(ent["mtime"]), float(ent["mtime"])), follow_symlinks=False)
            except OSError:
                pass
    for rel, ent in spec.items():
        if ent.get("own") is not None:  # foreign owner (the harness runs as root)
            try:
                os.chown(os.path.join(root, rel), int(ent["own"]), int(ent["own"]), follow_symlinks=False)
            except OSError:
                pass
