"""
Batch coordinator: starts worker interpreters, aggregates evidence, minimises and replays
violations, prints the verdict lines. Never imports flowmark.

    python -m dst.coordinator C13 quick|thorough
    python -m dst.coordinator C13 --replay replays/C13-....json

Exit 0: property held on everything explored (listed known findings are printed as KNOWN-FINDING).
Exit 1: `VIOLATION property=<id> replay=<path>` printed for a violation that replays.
Exit 2: harness error (no VIOLATION line).
"""

from __future__ import annotations

import importlib
import json
import os
import queue
import subprocess
import sys
import tempfile
import threading
import time
from typing import Any

from . import core

PY = sys.executable
RUN_TAG = "r%d" % os.getpid()  # scratch directories of this coordinator's workers carry this tag


def cleanup_scratch() -> None:
    """Remove scratch trees left behind by run children that were killed (wall timeout)."""
    import glob
    import shutil

    for base in ("/dev/shm", tempfile.gettempdir()):
        for d in glob.glob(os.path.join(base, f"dst-c1?-{RUN_TAG}-*")) + glob.glob(os.path.join(base, f"dst-stage-{RUN_TAG}-*")):
            shutil.rmtree(d, ignore_errors=True)


def child_env(hashseed: str = "0") -> dict[str, str]:
    e = dict(os.environ)
    e["PYTHONHASHSEED"] = hashseed
    e["PYTHONUTF8"] = "1"
    e["LC_ALL"] = "C.UTF-8"
    e["LANG"] = "C.UTF-8"
    e["PYTHONDONTWRITEBYTECODE"] = "1"
    e["PYTHONPATH"] = core.VERIF_DIR + os.pathsep + core.repo_src()
    e["VERIF_REPO_SRC"] = core.repo_src()
    e["VERIF_RUN_TAG"] = RUN_TAG
    e.pop("PYTHONSTARTUP", None)
    return e


class Worker:
    def __init__(self, name: str, args: list[str], env: dict[str, str], q: "queue.Queue[tuple[str, Any]]", errdir: str) -> None:
        self.name = name
        self.errpath = os.path.join(errdir, name + ".stderr")
        self.errf = open(self.errpath, "w")
        self.p = subprocess.Popen([PY, "-m", "dst.worker", *args], stdout=subprocess.PIPE, stderr=self.errf, env=env, cwd=core.VERIF_DIR, text=True)
        self.t = threading.Thread(target=self._pump, args=(q,), daemon=True)
        self.t.start()

    def _pump(self, q: "queue.Queue[tuple[str, Any]]") -> None:
        assert self.p.stdout is not None
        for line in self.p.stdout:
            line = line.strip()
            if not line:
                continue
            try:
                q.put((self.name, json.loads(line)))
            except json.JSONDecodeError:
                q.put((self.name, {"harness_error": "unparsable worker output", "raw": line[:300]}))
        rc = self.p.wait()
        q.put((self.name, {"exit": rc}))

    def kill(self) -> None:
        try:
            self.p.kill()
        except OSError:
            pass

    def stderr_tail(self, n: int = 2000) -> str:
        try:
            self.errf.flush()
            with open(self.errpath) as f:
                return f.read()[-n:]
        except OSError:
            return ""


def run_workers(specs: list[tuple[str, list[str], dict[str, str]]], hard_deadline: float, errdir: str) -> tuple[dict[str, list[dict[str, Any]]], list[str]]:
    q: "queue.Queue[tuple[str, Any]]" = queue.Queue()
    workers = {name: Worker(name, args, env, q, errdir) for name, args, env in specs}
    out: dict[str, list[dict[str, Any]]] = {name: [] for name in workers}
    errors: list[str] = []
    alive = set(workers)
    while alive:
        try:
            name, msg = q.get(timeout=1.0)
        except queue.Empty:
            if time.time() > hard_deadline:
                for n in alive:
                    workers[n].kill()
                    errors.append(f"worker {n} killed at hard wall deadline")
                break
            continue
        if "exit" in msg:
            alive.discard(name)
            if msg["exit"] != 0:
                errors.append(f"worker {name} exited {msg['exit']}: {workers[name].stderr_tail()}")
            continue
        if "harness_error" in msg:
            errors.append(f"worker {name}: {msg['harness_error']}: {msg.get('trace', msg.get('raw', ''))[-1500:]}")
            continue
        out[name].append(msg)
    for w in workers.values():
        w.errf.close()
    return out, errors


def main(argv: list[str] | None = None) -> int:
    argv = list(sys.argv[1:] if argv is None else argv)
    if not argv:
        print(__doc__)
        return 2
    check = argv[0].upper()
    if check not in core.CHECKS:
        print(f"unknown check {check}")
        return 2
    os.makedirs(core.EVIDENCE_DIR, exist_ok=True)
    os.makedirs(core.REPLAY_DIR, exist_ok=True)
    try:
        if "--replay" in argv:
            return replay(check, argv[argv.index("--replay") + 1])
        tier = argv[1] if len(argv) > 1 else os.environ.get("VERIF_TIER", "quick")
        if tier not in ("quick", "thorough"):
            tier = "quick"
        return batch(check, tier)
    finally:
        cleanup_scratch()


def replay(check: str, path: str) -> int:
    with tempfile.TemporaryDirectory(prefix="dstcoord") as errdir:
        out, errors = run_workers([("replay", [check, "--replay", path], child_env())], time.time() + 900, errdir)
    msgs = out["replay"]
    if not msgs:
        print("HARNESS-ERROR replay produced no result: " + "; ".join(errors)[:2000])
        return 2
    m = msgs[-1]
    print(json.dumps(m, indent=1)[:6000])
    if m.get("reproduced"):
        print(f"VIOLATION property={check} replay={path}")
        return 1
    print(f"replay did not reproduce a violation of {check} (verdict={m.get('verdict')}, fingerprint={m.get('fingerprint')})")
    return 0


def batch(check: str, tier: str) -> int:
    t0 = time.time()
    mod = importlib.import_module(f"dst.check_{check.lower()}")
    seed = core.verif_seed()
    W = int(os.environ.get("VERIF_WORKERS", "0")) or min(16, os.cpu_count() or 4)
    n_runs = int(os.environ.get("VERIF_RUNS", "0")) or mod.TIERS[tier]
    budget = float(os.environ.get("VERIF_BUDGET_S", "0"))
    deadline = 0.0
    if budget:
        deadline = t0 + budget
        n_runs = int(os.environ.get("VERIF_RUNS", "0")) or 10**7
    soft = getattr(mod, "WALL_CAP", {"quick": 420.0, "thorough": 3600.0})[tier]
    if not deadline:
        deadline = t0 + soft  # safety: stop starting runs, never kill a good batch
    hard_deadline = deadline + 1200.0

    specs = []
    for w in range(W):
        specs.append((f"w{w}", [check, "--tier", tier, "--seed", str(seed), "--indices", f"{w}:{n_runs}:{W}", "--deadline", str(deadline)], child_env()))
    # determinism self-test: a sample of the same run indices again, in other processes, with
    # another worker layout and another PYTHONHASHSEED; event-log digests must be identical
    k_det = int(os.environ.get("VERIF_DET_SAMPLE", "0")) or getattr(mod, "DET_SAMPLE", {"quick": 64, "thorough": 1000})[tier]
    k_det = min(k_det, n_runs)
    stride = max(1, n_runs // k_det)
    det_idx = list(range(0, n_runs, stride))[:k_det]
    n_det_workers = 3 if tier == "quick" else 5
    for j in range(n_det_workers):
        part = det_idx[j::n_det_workers]
        if part:
            specs.append((f"d{j}", [check, "--tier", tier, "--seed", str(seed), "--indices", ",".join(map(str, part))], child_env(hashseed=str(4242 + j))))

    with tempfile.TemporaryDirectory(prefix="dstcoord") as errdir:
        out, errors = run_workers(specs, hard_deadline, errdir)

        main_runs: dict[int, dict[str, Any]] = {}
        det_runs: dict[int, dict[str, Any]] = {}
        sets: dict[str, set[str]] = {}
        env_info: dict[str, Any] = {}
        for name, msgs in out.items():
            for m in msgs:
                if m.get("summary"):
                    if name.startswith("w"):
                        for k, v in m.get("sets", {}).items():
                            sets.setdefault(k, set()).update(v)
                        env_info = m.get("env") or env_info
                    continue
                (main_runs if name.startswith("w") else det_runs)[m["i"]] = m

        # ---- determinism verdict
        det_checked = det_mismatch = 0
        det_bad: list[int] = []
        det_detail: list[str] = []
        for i, m in det_runs.items():
            if i in main_runs:
                if m.get("verdict") == "harness_error" and main_runs[i].get("verdict") != "harness_error":
                    # the repeat itself broke (killed at the per-run wall limit on an overloaded
                    # machine ...): a harness error of its own, not a statement about determinism
                    errors.append(f"determinism repeat of run {i}: {str(m.get('trace', ''))[-300:]}")
                    continue
                det_checked += 1
                if m.get("digest") != main_runs[i].get("digest") or m.get("verdict") != main_runs[i].get("verdict"):
                    det_mismatch += 1
                    det_bad.append(i)
                    det_detail.append(f"run {i}: {main_runs[i].get('verdict')}/{main_runs[i].get('digest')} vs {m.get('verdict')}/{m.get('digest')}")

        # ---- aggregate
        counters: dict[str, Any] = {}
        distinct: set[str] = set()
        sched_digests: set[str] = set()
        samples: list[Any] = []
        violations: dict[str, list[dict[str, Any]]] = {}
        harness_runs = 0
        for i in sorted(main_runs):
            m = main_runs[i]
            core.merge_counters(counters, m.get("counters", {}))
            if m.get("verdict") == "harness_error":
                harness_runs += 1
                errors.append(f"run {i}: {m.get('trace', '')[-1200:]}")
                continue
            if m.get("nontrivial"):
                distinct.add(m.get("distinct_key") or m.get("digest", ""))
            if m.get("schedule_digest"):
                sched_digests.add(m["schedule_digest"])
            if "sample_case" in m and len(samples) < 4:
                samples.append(m["sample_case"])
            for v in m.get("violations") or ([m] if m.get("verdict") == "violation" else []):
                fp = v.get("fingerprint", "?")
                violations.setdefault(fp, []).append({**v, "i": i, "seed": m["seed"], "case": v.get("case", m.get("case"))})

        # ---- violations: known findings, minimise, replay
        new_violation_lines: list[str] = []
        known_lines: list[str] = []
        replay_failures: list[str] = []
        max_min = int(os.environ.get("VERIF_MAX_MINIMISE", "3"))
        for fp in sorted(violations):
            kf = core.finding_for(check, fp)
            if kf is not None:
                known_lines.append(f"KNOWN-FINDING: property={check} {fp}: {kf.get('what', '')} ({len(violations[fp])} occurrence(s) this run)")
                continue
            if len(new_violation_lines) >= max_min:
                new_violation_lines.append(f"VIOLATION property={check} replay=(not minimised; fingerprint {fp}, run index {violations[fp][0]['i']})")
                continue
            reproduced_one = False
            failures_here: list[str] = []
            for v in violations[fp][:3]:  # a run that does not replay is not believed; the next one of the class is tried
                tag = core.digest([fp, v["seed"]], 10)
                vin = os.path.join(errdir, f"v-{tag}.json")
                with open(vin, "w") as f:
                    json.dump({"case": v["case"], "fingerprint": fp, "i": v["i"], "seed": v["seed"], "verif_seed": seed}, f, default=core._default)
                rpath = os.path.join(core.REPLAY_DIR, f"{check}-{v['seed']}-{tag}.json")
                o2, e2 = run_workers([("min", [check, "--minimise", vin, "--out", rpath, "--tier", tier], child_env())], time.time() + 1800, errdir)
                if not os.path.exists(rpath):
                    # fall back to the unminimised case as the replay file
                    with open(rpath, "w") as f:
                        json.dump({"check": check, "property": check, "fingerprint": fp, "case": v["case"], "run_seed": v["seed"], "observed": {"detail": v.get("detail")}, "note": "minimiser failed: " + "; ".join(e2)[:500]}, f, indent=1, default=core._default)
                o3, e3 = run_workers([("rep", [check, "--replay", rpath], child_env())], time.time() + 900, errdir)
                rep = o3["rep"][-1] if o3["rep"] else {}
                if rep.get("reproduced"):
                    new_violation_lines.append(f"VIOLATION property={check} replay={rpath}")
                    reproduced_one = True
                    break
                else:
                    failures_here.append(f"fingerprint {fp} (run {v['i']}) did not reproduce from {rpath}: {rep or e3}")
            if not reproduced_one:
                replay_failures.extend(failures_here)

        wall = time.time() - t0
        evals = len([m for m in main_runs.values() if m.get("verdict") != "harness_error"])
        cov: dict[str, Any] = {
            "evaluations": evals,
            "distinct_nontrivial": len(distinct),
            "rule": getattr(mod, "RULE", ""),
            "samples": samples or [main_runs[i].get("sample_case", {"i": i, "digest": main_runs[i].get("digest")}) for i in sorted(main_runs)[:2]],
            "exhaustive": False,
            "runs_per_hour": round(evals / wall * 3600) if wall > 0 else 0,
            "workers": W,
            "run_index_range": [0, max(main_runs) if main_runs else -1],
            "counters": counters,
            "distinct_schedule_digests": len(sched_digests),
            "determinism_selftest": {"runs_repeated_in_other_process_and_hashseed": det_checked, "mismatches": det_mismatch, "mismatching_indices": det_bad[:10]},
            "known_findings_hit": sorted(fp for fp in violations if core.finding_for(check, fp)),
            "new_violation_fingerprints": sorted(fp for fp in violations if not core.finding_for(check, fp)),
            "violating_runs_by_fingerprint": {fp: len(v) for fp, v in sorted(violations.items())},
            "harness_error_runs": harness_runs,
            "components": getattr(mod, "COMPONENTS", {}),
            "env": env_info,
        }
        for k, v in sets.items():
            cov["distinct_" + k] = len(v)
        if hasattr(mod, "evidence_extras"):
            cov.update(mod.evidence_extras(counters, sets, main_runs))
        ev = {
            "property_id": check,
            "tier": tier,
            "seed": seed,
            "level": core.LEVEL[check],
            "coverage": cov,
            "assumptions": getattr(mod, "ASSUMPTIONS", []),
            "wall_s": round(wall, 1),
            "violations": len([ln for ln in new_violation_lines]),
        }
        with open(os.path.join(core.EVIDENCE_DIR, f"{check}.json"), "w") as f:
            json.dump(ev, f, indent=1, default=core._default)

        print(f"[{check} {tier}] seed={seed} runs={len(main_runs)} evaluations={cov['evaluations']} distinct_nontrivial={cov['distinct_nontrivial']} wall={wall:.1f}s workers={W} determinism {det_checked - det_mismatch}/{det_checked} identical")
        for ln in known_lines:
            print(ln)
        for ln in new_violation_lines:
            print(ln)
        if new_violation_lines:
            return 1
        if replay_failures:
            print("HARNESS-ERROR violation(s) did not replay: " + " | ".join(replay_failures)[:3000])
            return 2
        if det_mismatch:
            print(f"HARNESS-ERROR determinism self-test: {det_mismatch}/{det_checked} repeated runs differ (indices {det_bad[:10]}; {'; '.join(det_detail[:3])})")
            return 2
        if errors:
            print("HARNESS-ERROR " + " || ".join(errors)[:4000])
            return 2
        if evals == 0:
            print("HARNESS-ERROR no run completed")
            return 2
        return 0


if __name__ == "__main__":
    sys.exit(main())
