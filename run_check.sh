#!/bin/sh
# usage: ./run_check.sh Cxx quick|thorough   |   ./run_check.sh Cxx --replay <file>
# honours VERIF_SEED, VERIF_TIER, VERIF_BUDGET_S, VERIF_RUNS, VERIF_WORKERS, VERIF_REPO_SRC
cd "$(dirname "$0")" || exit 2
PY=${VERIF_PYTHON:-/venv/bin/python}
export PYTHONHASHSEED=0 PYTHONUTF8=1 LC_ALL=C.UTF-8 PYTHONDONTWRITEBYTECODE=1
export PYTHONPATH="$(pwd)"
exec "$PY" -m dst.coordinator "$@"
